pub mod prelude { pub use wasm_bindgen_macro::wasm_bindgen; }
