#![no_main]
use libfuzzer_sys::fuzz_target;
#[path = "../../src/fuzzcase.rs"]
#[allow(dead_code)]
mod fuzzcase;
fuzz_target!(|data: &[u8]| {
    fuzzcase::run_search_case(data);
});
