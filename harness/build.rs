// Copies the real WASM bridge source of the repository under test next to the build output so that
// it can be compiled natively (see src/bridge.rs). The path comes from LSMON_REPO.
use std::{env, fs, path::Path};
fn main() {
    let repo = env::var("LSMON_REPO").unwrap_or_else(|_| "/repo".to_string());
    let src = format!("{}/rust/wasm/src/lib.rs", repo);
    println!("cargo:rerun-if-changed={}", src);
    println!("cargo:rerun-if-env-changed=LSMON_REPO");
    let out = env::var("OUT_DIR").unwrap();
    let text = fs::read_to_string(&src).unwrap_or_else(|_| String::from("// bridge source missing\n"));
    fs::write(Path::new(&out).join("bridge.rs"), text).unwrap();
}
