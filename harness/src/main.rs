//! lsmon: runtime monitors for lucid-suggest (see /verif/DESIGN.md).
//!
//!   lsmon run --prop C03 --tier quick --seed 1 --shard 0/16 --out DIR [--only stream:idx] [--trace]
//!   lsmon merge-keys FILE...

mod bridge;
mod common;
mod fuzzcase;
mod fw;
mod gen;
mod oracle;
mod props;
mod userlang;

use fw::{RunArgs, Tier};

fn main() {
    let args: Vec<String> = std::env::args().collect();
    if args.len() < 2 {
        eprintln!("usage: lsmon run|merge-keys ...");
        std::process::exit(2);
    }
    match args[1].as_str() {
        "fuzzcase" => {
            // lsmon fuzzcase search|prims FILE : replay a libFuzzer input in this build
            let which = args.get(2).cloned().unwrap_or_default();
            let data = std::fs::read(args.get(3).cloned().unwrap_or_default()).unwrap_or_default();
            fw::install_panic_hook();
            let res = std::panic::catch_unwind(|| match which.as_str() {
                "search" => fuzzcase::run_search_case(&data),
                #[cfg(lucid_suggest_verif)]
                "prims" => fuzzcase::run_prims_case(&data),
                _ => {}
            });
            match res {
                Ok(()) => {
                    println!("fuzzcase {}: returned normally", which);
                }
                Err(_) => {
                    println!("fuzzcase {}: PANIC {:?}", which, fw::last_panic());
                    std::process::exit(1);
                }
            }
        }
        "merge-keys" => {
            println!("{}", fw::merge_keys(&args[2..]));
        }
        "run" => {
            let mut ra = RunArgs {
                prop: String::new(),
                tier: Tier::Quick,
                seed: 1,
                shard: 0,
                nshards: 1,
                out: None,
                only: None,
                trace: false,
                scale: 1.0,
                case_timeout_s: 90,
                max_wall_s: 0,
            };
            let mut i = 2;
            while i < args.len() {
                let val = args.get(i + 1).cloned().unwrap_or_default();
                match args[i].as_str() {
                    "--prop" => { ra.prop = val; i += 1; }
                    "--tier" => { ra.tier = Tier::parse(&val); i += 1; }
                    "--seed" => { ra.seed = val.parse().unwrap_or(1); i += 1; }
                    "--shard" => {
                        let mut p = val.split('/');
                        ra.shard = p.next().and_then(|x| x.parse().ok()).unwrap_or(0);
                        ra.nshards = p.next().and_then(|x| x.parse().ok()).unwrap_or(1);
                        i += 1;
                    }
                    "--out" => { ra.out = Some(val); i += 1; }
                    "--only" => {
                        let mut p = val.rsplitn(2, ':');
                        let idx = p.next().and_then(|x| x.parse().ok()).unwrap_or(0);
                        ra.only = Some((p.next().unwrap_or("").to_string(), idx));
                        i += 1;
                    }
                    "--scale" => { ra.scale = val.parse().unwrap_or(1.0); i += 1; }
                    "--case-timeout" => { ra.case_timeout_s = val.parse().unwrap_or(90); i += 1; }
                    "--max-wall" => { ra.max_wall_s = val.parse().unwrap_or(0); i += 1; }
                    "--trace" => { ra.trace = true; }
                    other => { eprintln!("unknown argument {}", other); std::process::exit(2); }
                }
                i += 1;
            }
            let prop = match props::get(&ra.prop) {
                Some(p) => p,
                None => { eprintln!("unknown or unavailable property {} in this build", ra.prop); std::process::exit(2); }
            };
            std::process::exit(fw::run(prop.as_ref(), &ra));
        }
        _ => {
            eprintln!("usage: lsmon run|merge-keys ...");
            std::process::exit(2);
        }
    }
}
