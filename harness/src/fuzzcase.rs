//! Byte-string -> case decoders shared by the libFuzzer targets (harness/fuzz) and by
//! `lsmon fuzzcase`, which replays a libFuzzer artifact in the checked build. Uses only the
//! library's public API (+ the guarded re-exports for `prims`). A violation is a panic.

use lucid_suggest_core::*;

fn lang_of(b: u8) -> Lang {
    match b % 7 {
        0 => Lang::new(),
        1 => lang_german(),
        2 => lang_english(),
        3 => lang_spanish(),
        4 => lang_french(),
        5 => lang_portuguese(),
        _ => lang_russian(),
    }
}

/// data[0]: language, data[1]: limit class, rest: UTF-8 (lossy) text; lines = titles, the last
/// (up to 4) lines starting with '?' are queries; lines starting with '=' set the limit, '<' the
/// markers. Every call must return; invariants cheap enough for a fuzz loop are asserted.
pub fn run_search_case(data: &[u8]) {
    if data.len() < 3 {
        return;
    }
    let mut store = Store::new();
    store.lang = lang_of(data[0]);
    store.limit = match data[1] % 8 {
        0 => 0,
        1 => 1,
        2 => 65536,
        n => n as usize,
    };
    let text = String::from_utf8_lossy(&data[2..]);
    let mut added = 0usize;
    let mut searches = 0usize;
    for line in text.split('\n') {
        if let Some(q) = line.strip_prefix('?') {
            if searches >= 6 {
                continue;
            }
            searches += 1;
            let tq = tokenize_query(q, &store.lang);
            let hits = store.search(&tq.to_ref());
            assert!(hits.len() <= store.limit, "more hits than the limit");
            for h in &hits {
                assert!(!h.title.contains('\0'), "NUL in a returned title");
                assert!(h.id < added, "unknown id");
            }
            let mut ids: Vec<usize> = hits.iter().map(|h| h.id).collect();
            ids.sort();
            ids.dedup();
            assert!(ids.len() == hits.len(), "record returned twice");
        } else if let Some(l) = line.strip_prefix('=') {
            store.limit = l.len() % 14;
        } else if let Some(m) = line.strip_prefix('<') {
            let mut it = m.splitn(2, '>');
            let a = it.next().unwrap_or("");
            let b = it.next().unwrap_or("");
            store.highlight_with((a, b));
        } else if added < 8 {
            let rec = Record::new(added, line, (added * 7919) % 1000, &store.lang);
            store.add(rec);
            added += 1;
        }
    }
}

/// Word pairs straight into the private matchers: data = class-tagged symbols, 0xFF separates the
/// two words, 0xFE separates successive pairs (so one input is a *history* of calls on one instance).
#[cfg(lucid_suggest_verif)]
pub fn run_prims_case(data: &[u8]) {
    use lucid_suggest_core::lang::CharClass;
    let dl = DamerauLevenshtein::new();
    let jc: Jaccard<char> = Jaccard::new();
    for pair in data.split(|b| *b == 0xFE).take(8) {
        let mut halves = pair.splitn(2, |b| *b == 0xFF);
        let mk = |bytes: &[u8]| -> TextOwn {
            let chars: Vec<char> = bytes.iter().take(90).map(|b| (b'a' + (b % 12)) as char).collect();
            let classes: Vec<CharClass> = bytes
                .iter()
                .take(90)
                .map(|b| match (b % 12) % 4 {
                    0 => CharClass::Vowel,
                    1 => CharClass::Consonant,
                    2 => CharClass::NotAlpha,
                    _ => CharClass::Any,
                })
                .collect();
            let mut t = TextOwn::from_vec(chars);
            t.classes = classes;
            t
        };
        let w1 = mk(halves.next().unwrap_or(&[]));
        let w2 = mk(halves.next().unwrap_or(&[]));
        let d = dl.distance(&w1.view(0), &w2.view(0));
        let r = dl.distance(&w2.view(0), &w1.view(0));
        assert!(d >= 0.0 && (d * 2.0).fract() == 0.0, "distance not a multiple of 0.5");
        assert!((d == 0.0) == (w1.chars == w2.chars), "zero iff equal");
        assert!(d == r, "symmetry");
        let s = jc.similarity(&w1.chars, &w2.chars);
        assert!(s >= 0.0 && s <= 1.0, "similarity outside [0,1]");
    }
}
