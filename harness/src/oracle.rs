//! Independent models used by the monitors. Nothing here calls into the matching / search code of
//! the library; the only library code used is the *public tokeniser*, and only where a property
//! text itself says "compared with the public tokenisation".

use crate::common::*;
use lucid_suggest_core::*;
use std::collections::{BTreeMap, BTreeSet};

// ---------------------------------------------------------------------------------------------
// Specification tables (DESIGN.md Appendix A). These are the spec, not a copy of the repo tables:
// dropping an entry from the repo's tables is a detectable change.

/// (composed letters, base letters, combining mark)
pub fn compose_table(lang: &str) -> Vec<(&'static str, &'static str, char)> {
    match lang {
        "de" => vec![("ÄÖÜäöü", "AOUaou", '\u{308}')],
        "xd" => vec![("ÄÖÜäöü", "AOUaou", '\u{308}'), ("Éé", "Ee", '\u{301}'), ("ĳ", "i", 'j'), ("Ĳ", "I", 'J')],
        "es" => vec![
            ("ÁÉÍÓÚáéíóú", "AEIOUaeiou", '\u{301}'),
            ("Ññ", "Nn", '\u{303}'),
            ("Üü", "Uu", '\u{308}'),
        ],
        "fr" => vec![
            ("Éé", "Ee", '\u{301}'),
            ("ÀÈÙàèù", "AEUaeu", '\u{300}'),
            ("ÂÊÎÔÛâêîôû", "AEIOUaeiou", '\u{302}'),
            ("ËÏÜŸëïüÿ", "EIUYeiuy", '\u{308}'),
            ("Çç", "Cc", '\u{327}'),
            ("Ññ", "Nn", '\u{303}'),
        ],
        "pt" => vec![
            ("Çç", "Cc", '\u{327}'),
            ("ÁÉÍÓÚáéíóú", "AEIOUaeiou", '\u{301}'),
            ("ÂÊÔâêô", "AEOaeo", '\u{302}'),
            ("ÃÕãõ", "AOao", '\u{303}'),
            ("ÀÈÌÒÙàèìòù", "AEIOUaeiou", '\u{300}'),
        ],
        "ru" => vec![("Ёё", "Ее", '\u{308}')],
        "xk" => vec![("がぎば", "かきは", '\u{3099}'), ("ぱ", "は", '\u{309a}'), ("ヴ", "ウ", '\u{3099}'), ("\u{fb2a}", "ש", '\u{5c1}'), ("ヴ", "ｳ", 'ﾞ')],
        "xc" => vec![("ÄÖÜäöü", "AOUaou", '\u{308}'), ("Éé", "Ee", '\u{301}')],
        _ => vec![],
    }
}

/// One-to-one canonical mappings applied together with the compositions (user-defined language only).
pub fn singleton_table(lang: &str) -> Vec<(char, char)> {
    match lang {
        "xk" => vec![('\u{212b}', '\u{c5}'), ('\u{1f71}', '\u{3ac}'), ('ｳ', 'ウ')],
        "xc" => vec![('\u{212b}', '\u{c5}')],
        _ => vec![],
    }
}

/// Pairs of non-letters composed into one non-letter (user-defined language only; not part of the letter inventory).
pub fn symbol_pairs(lang: &str) -> Vec<(char, char, char)> {
    match lang {
        "xc" => vec![('-', '-', '\u{2014}')],
        _ => vec![],
    }
}

/// Characters a language's compositions delete (composition to the empty string).
pub fn deleted_by_composition(lang: &str) -> Vec<char> {
    match lang {
        "xc" => vec!['\u{ad}'],
        _ => vec![],
    }
}

/// Letters folded to two letters (no decomposed form).
pub fn expanding_table(lang: &str) -> Vec<(char, &'static str)> {
    match lang {
        "de" => vec![('ẞ', "SS"), ('ß', "ss")],
        "xd" => vec![('ẞ', "S"), ('ß', "s"), ('ĳ', "ij"), ('Ĳ', "IJ")],
        "fr" => vec![('Æ', "AE"), ('æ', "ae"), ('Œ', "OE"), ('œ', "oe"), ('Ø', "OE"), ('ø', "oe")],
        "xk" => vec![('ゟ', "より")],
        // the reduce-only language: every entry of its reduce table (two of them do not lengthen the text)
        "xr" => vec![('ß', "ss"), ('ẞ', "ß"), ('é', "e"), ('É', "E"), ('ø', "oe"), ('Ø', "OE"), ('w', "v"), ('W', "V"), ('x', "ks"), ('X', "KS"), ('å', "aa"), ('Å', "AA")],
        _ => vec![],
    }
}

/// Letters whose decomposed spelling (base + mark) the language's REDUCTION table lists next to the precomposed one
/// (nothing is composed; both spellings are folded to the same letters). `composed` / `base` / `mark` as in `accents`.
pub fn reduced_pairs(lang: &str) -> Vec<Accent> {
    match lang {
        "xr" => vec![Accent { composed: 'å', base: 'a', mark: '\u{30a}' }, Accent { composed: 'Å', base: 'A', mark: '\u{30a}' }],
        _ => vec![],
    }
}

/// Does the language fold the letters it composes to their base letters? (Not "xc": compositions only.)
pub fn folds_composed(lang: &str) -> bool {
    lang != "xc"
}

#[derive(Clone, Debug)]
pub struct Accent {
    pub composed: char,
    pub base: char,
    pub mark: char,
}

pub fn accents(lang: &str) -> Vec<Accent> {
    let mut out = vec![];
    for (cs, bs, mark) in compose_table(lang) {
        for (c, b) in cs.chars().zip(bs.chars()) {
            out.push(Accent { composed: c, base: b, mark });
        }
    }
    out
}

/// Greedy left-to-right composition of base+mark pairs the language documents.
pub fn compose(lang: &str, input: &[char]) -> Vec<char> {
    let acc = accents(lang);
    let single = singleton_table(lang);
    let pairs = symbol_pairs(lang);
    let deleted = deleted_by_composition(lang);
    let mut out = Vec::with_capacity(input.len());
    let mut i = 0;
    while i < input.len() {
        if i + 1 < input.len() {
            if let Some(a) = acc.iter().find(|a| a.base == input[i] && a.mark == input[i + 1]) {
                out.push(a.composed);
                i += 2;
                continue;
            }
            if let Some(p) = pairs.iter().find(|p| p.0 == input[i] && p.1 == input[i + 1]) {
                out.push(p.2);
                i += 2;
                continue;
            }
        }
        if !deleted.contains(&input[i]) {
            out.push(single.iter().find(|(from, _)| *from == input[i]).map(|(_, to)| *to).unwrap_or(input[i]));
        }
        i += 1;
    }
    out
}

/// Accent folding of one (composed) character: `None` when the language leaves it alone.
pub fn fold(lang: &str, c: char) -> Option<String> {
    // (a composed letter with an entry of its own in the reduction table is reduced as that entry says)
    for (x, to) in expanding_table(lang) {
        if x == c {
            return Some(to.to_string());
        }
    }
    if folds_composed(lang) {
        for a in accents(lang) {
            if a.composed == c {
                return Some(a.base.to_string());
            }
        }
    }
    None
}

/// Normalised spelling of one word by the harness's own tables: compose, fold accents, lower-case.
pub fn norm_word(lang: &str, w: &str) -> String {
    let mut out = String::new();
    let cs = compose(lang, &cv(w));
    let pairs = reduced_pairs(lang);
    let mut i = 0;
    while i < cs.len() {
        let mut c = cs[i];
        if i + 1 < cs.len() {
            if let Some(p) = pairs.iter().find(|p| p.base == cs[i] && p.mark == cs[i + 1]) {
                c = p.composed;
                i += 1;
            }
        }
        let folded = fold(lang, c).unwrap_or_else(|| c.to_string());
        for x in folded.chars() {
            out.extend(x.to_lowercase());
        }
        i += 1;
    }
    out
}

/// Letters that a reduction of the language PRODUCES and that its table would reduce again (the middle of a chain): a
/// stored word may legitimately still contain them.
pub fn chain_letters(lang: &str) -> Vec<char> {
    let mut out = vec![];
    for (_, to) in expanding_table(lang) {
        for c in to.chars() {
            if fold(lang, c).is_some() && !out.contains(&c) {
                out.push(c);
            }
        }
    }
    out
}

/// One pass of the language's composition and of its reductions over a text, without lower-casing: the text a language
/// object has produced internally after normalising `text` (expanding letters come out expanded, a chained entry one step).
pub fn reduce_once(lang: &str, text: &str) -> String {
    let cs = compose(lang, &cv(text));
    let pairs = reduced_pairs(lang);
    let mut out = String::new();
    let mut i = 0;
    while i < cs.len() {
        let mut c = cs[i];
        if i + 1 < cs.len() {
            if let Some(p) = pairs.iter().find(|p| p.base == cs[i] && p.mark == cs[i + 1]) {
                c = p.composed;
                i += 1;
            }
        }
        out.push_str(&fold(lang, c).unwrap_or_else(|| c.to_string()));
        i += 1;
    }
    out
}

pub const FUNCTION_WORDS_TXT: &str = include_str!("../data/function_words.txt");

/// The frozen function-word list of a language (normalised spellings): the specification of what a
/// "function word" is, so that the monitors never have to ask the code under test.
pub fn listed_function_words(lang: &str) -> BTreeSet<String> {
    let mut out = BTreeSet::new();
    for line in FUNCTION_WORDS_TXT.lines() {
        let mut it = line.split(' ');
        if it.next() == Some(base_lang(lang)) {
            for w in it {
                // (the extended language re-registers the sharp s keys AFTER its function words were registered under
                // their old spelling: those entries are no longer reachable and are not part of its list)
                if lang == "xd" && (w.contains('ß') || w.contains('ẞ')) {
                    continue;
                }
                out.insert(norm_word(lang, w));
            }
        }
    }
    out
}

pub fn expected_title(lang: &str, title: &str) -> String {
    compose(lang, &cv(title)).into_iter().filter(|c| *c != '\0').collect()
}

// ---------------------------------------------------------------------------------------------
// Character classes as the property texts name them.

pub fn is_punct(ch: char) -> bool {
    matches!(
        ch,
        '&' | '(' | ')' | ',' | ':' | ';' | '.' | '!' | '?' | '-' | '\u{2011}' | '\u{2012}' | '\u{2013}'
            | '\u{2014}' | '\u{2026}' | '\u{203c}' | '\u{2047}' | '\u{2048}' | '\u{2049}'
    )
}

pub fn is_splitter(ch: char) -> bool {
    ch.is_whitespace() || ch.is_control() || is_punct(ch)
}

/// "Upper-case" = a capital that has a lower-case form (DESIGN.md section 6).
pub fn is_upper(c: char) -> bool {
    c.is_uppercase() && c.to_lowercase().next() != Some(c)
}

pub fn has_alnum(text: &str) -> bool {
    text.chars().any(|c| c.is_alphanumeric())
}

// ---------------------------------------------------------------------------------------------
// Highlight parsing.

/// Parse a title returned under sentinel markers against the public tokenisation of the stored
/// title. Returns spans in token-array coordinates `[a, b)`, `b` = index after the last *visible*
/// character of the span (trailing NUL padding is never counted).
pub fn spans_of(hit: &str, tok: &TextOwn) -> Result<Vec<(usize, usize)>, String> {
    let idx: Vec<usize> = (0..tok.source.len()).filter(|&i| tok.source[i] != '\0').collect();
    let mut k = 0usize;
    let mut open: Option<usize> = None;
    let mut spans = vec![];
    for ch in hit.chars() {
        if ch == S1 {
            if open.is_some() {
                return Err("nested opening marker".into());
            }
            open = Some(k);
        } else if ch == S2 {
            match open.take() {
                None => return Err("closing marker without opening marker".into()),
                Some(a) => {
                    if a == k {
                        return Err("empty span".into());
                    }
                    spans.push((idx[a], idx[k - 1] + 1));
                }
            }
        } else {
            if k >= idx.len() {
                return Err("returned title longer than the stored title".into());
            }
            if tok.source[idx[k]] != ch {
                return Err(format!("character {} differs: {:?} vs stored {:?}", k, ch, tok.source[idx[k]]));
            }
            k += 1;
        }
    }
    if open.is_some() {
        return Err("unclosed span".into());
    }
    if k != idx.len() {
        return Err("returned title shorter than the stored title".into());
    }
    Ok(spans)
}

pub fn strip_sentinels(text: &str) -> String {
    text.chars().filter(|c| *c != S1 && *c != S2).collect()
}

pub fn substitute_markers(text: &str, l: &str, r: &str) -> String {
    let l: String = l.chars().filter(|c| *c != '\0').collect();
    let r: String = r.chars().filter(|c| *c != '\0').collect();
    let mut out = String::new();
    for c in text.chars() {
        if c == S1 {
            out.push_str(&l);
        } else if c == S2 {
            out.push_str(&r);
        } else {
            out.push(c);
        }
    }
    out
}

// ---------------------------------------------------------------------------------------------
// Grams.

pub type Gram = [char; 3];

pub fn grams_of_word(cs: &[char], out: &mut BTreeSet<Gram>) {
    if !cs.is_empty() {
        out.insert([cs[0], '\0', '\0']);
    }
    if cs.len() >= 2 {
        out.insert([cs[0], cs[1], '\0']);
    }
    for k in 0..cs.len().saturating_sub(2) {
        out.insert([cs[k], cs[k + 1], cs[k + 2]]);
    }
}

pub fn grams_of(t: &TextOwn) -> BTreeSet<Gram> {
    let mut set = BTreeSet::new();
    for w in &t.words {
        grams_of_word(&t.chars[w.slice.0..w.slice.1], &mut set);
    }
    set
}

// ---------------------------------------------------------------------------------------------
// Edit distances and set similarity.

pub fn lev(a: &[char], b: &[char]) -> usize {
    let mut prev: Vec<usize> = (0..=b.len()).collect();
    for i in 1..=a.len() {
        let mut cur = vec![i; b.len() + 1];
        for j in 1..=b.len() {
            cur[j] = (prev[j] + 1).min(cur[j - 1] + 1).min(prev[j - 1] + (a[i - 1] != b[j - 1]) as usize);
        }
        prev = cur;
    }
    prev[b.len()]
}

/// Unrestricted Damerau-Levenshtein distance (Lowrance-Wagner), unit costs.
pub fn dl_unrestricted(a: &[char], b: &[char]) -> usize {
    let (n, m) = (a.len(), b.len());
    let inf = n + m;
    let mut d = vec![vec![0usize; m + 2]; n + 2];
    d[0][0] = inf;
    for i in 0..=n {
        d[i + 1][0] = inf;
        d[i + 1][1] = i;
    }
    for j in 0..=m {
        d[0][j + 1] = inf;
        d[1][j + 1] = j;
    }
    let mut da: BTreeMap<char, usize> = BTreeMap::new();
    for i in 1..=n {
        let mut db = 0;
        for j in 1..=m {
            let i1 = *da.get(&b[j - 1]).unwrap_or(&0);
            let j1 = db;
            let cost = if a[i - 1] == b[j - 1] {
                db = j;
                0
            } else {
                1
            };
            d[i + 1][j + 1] = (d[i][j] + cost)
                .min(d[i + 1][j] + 1)
                .min(d[i][j + 1] + 1)
                .min(d[i1][j1] + (i - i1 - 1) + 1 + (j - j1 - 1));
        }
        da.insert(a[i - 1], i);
    }
    d[n + 1][m + 1]
}

pub fn set_jaccard(a: &[char], b: &[char]) -> f64 {
    let x: BTreeSet<char> = a.iter().cloned().collect();
    let y: BTreeSet<char> = b.iter().cloned().collect();
    if x.is_empty() && y.is_empty() {
        return 1.0;
    }
    x.intersection(&y).count() as f64 / x.union(&y).count() as f64
}

// ---------------------------------------------------------------------------------------------
// Stability of derived queries (DESIGN.md section 5).

/// `true` iff typing `q` yields exactly the intended normalised words.
pub fn stable(lang: &Lang, q: &str, want: &[&[char]]) -> bool {
    let tq = tokenize_query(q, lang);
    tq.words.len() == want.len()
        && tq.words.iter().zip(want.iter()).all(|(w, x)| &tq.chars[w.slice.0..w.slice.1] == *x)
}

// ---------------------------------------------------------------------------------------------
// C15: tokenisation invariants, as one reusable checker (also used as a precondition monitor by
// other properties' workloads).

pub fn check_tok(lang: &str, input: &str, t: &TextOwn, is_query: bool) -> Option<(&'static str, String)> {
    check_tok_composed(&compose(lang, &cv(input)), t, is_query)
}

/// The same clauses for any language whose composed input the caller knows (`want` = the input with the language's
/// compositions applied).
pub fn check_tok_composed(want: &[char], t: &TextOwn, is_query: bool) -> Option<(&'static str, String)> {
    let n = t.chars.len();
    if t.source.len() != n || t.classes.len() != n {
        return Some(("lengths", format!("source={} chars={} classes={}", t.source.len(), n, t.classes.len())));
    }
    let mut prev_end = 0usize;
    let mut covered = vec![0u8; n];
    for (i, w) in t.words.iter().enumerate() {
        if w.offset != i {
            return Some(("numbering", format!("word {} has offset {}", i, w.offset)));
        }
        let (a, b) = w.slice;
        if !(a < b && b <= n) {
            return Some(("slice", format!("word {} slice {:?} of {}", i, w.slice, n)));
        }
        if i > 0 && a < prev_end {
            return Some(("order", format!("word {} starts at {} before previous end {}", i, a, prev_end)));
        }
        prev_end = b;
        let cs = &t.chars[a..b];
        if !cs[0].is_alphanumeric() || !cs[cs.len() - 1].is_alphanumeric() {
            return Some(("edges", format!("word {:?}", cs)));
        }
        for &c in cs {
            if c.is_whitespace() || c.is_control() || is_punct(c) {
                return Some(("separator-inside", format!("word {:?}", cs)));
            }
            if is_upper(c) {
                return Some(("upper-inside", format!("word {:?}", cs)));
            }
        }
        if w.stem < 1 || w.stem > b - a {
            return Some(("stem", format!("stem {} of word length {}", w.stem, b - a)));
        }
        for k in a..b {
            covered[k] = covered[k].saturating_add(1);
        }
        let last = i + 1 == t.words.len();
        let expect_fin = !(is_query && last && b == n);
        if w.fin != expect_fin {
            return Some(("fin", format!("word {} {:?} fin={} expected {} (text length {})", i, w.slice, w.fin, expect_fin, n)));
        }
    }
    for k in 0..n {
        if t.chars[k].is_alphanumeric() && covered[k] != 1 {
            return Some(("coverage", format!("alphanumeric {:?} at {} lies in {} words", t.chars[k], k, covered[k])));
        }
    }
    // source without padding == composed input
    let unpadded: Vec<char> =
        (0..n).filter(|&i| !(t.source[i] == '\0' && t.chars[i] != '\0')).map(|i| t.source[i]).collect();
    if &unpadded[..] != want {
        return Some(("source", format!("source without padding {:?} != composed input {:?}", s(&unpadded), s(want))));
    }
    None
}

/// Position of `a` before `b` in a hit list ("b absent" also counts as a outranking b).
pub fn outranks(hits: &[(usize, String)], better: usize, worse: usize) -> bool {
    let pb = hits.iter().position(|h| h.0 == better);
    let pw = hits.iter().position(|h| h.0 == worse);
    match (pb, pw) {
        (Some(b), Some(w)) => b < w,
        (Some(_), None) => true,
        _ => false,
    }
}
