//! The real WASM bridge of the repository under test (`rust/wasm/src/lib.rs`), compiled natively.
//! build.rs copies the file into OUT_DIR; `wasm_bindgen` is a local stub crate whose
//! `#[wasm_bindgen]` attribute is a no-op (bridge_stub/), so the bridge's own Rust code - argument
//! passing, NUL framing of titles - is what runs here.
#[allow(dead_code, unused_imports, unexpected_cfgs)]
pub mod bridge {
    include!(concat!(env!("OUT_DIR"), "/bridge.rs"));
}
