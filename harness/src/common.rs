//! Shared plumbing: deterministic RNG, hashing, language handling, store construction.
//! Nothing here depends on hash-map iteration order or on time, so a case is a pure function of
//! its seed (needed for replay and for the checked-vs-ship trace comparison of C01).

use lucid_suggest_core::*;
use std::cell::RefCell;

pub const S1: char = '\u{e000}';
pub const S2: char = '\u{e001}';

/// The six bundled languages, "none" (`Lang::new()`), and three user-defined languages built through the
/// public `Lang` API - "for all languages" includes the ones a user defines: "xk" (kana + Hebrew
/// compositions with script-specific combining marks, singleton compositions, an expanding ligature, two
/// function words, character classes), "xc" (compositions ONLY: no reduction, no function word - composed
/// letters stay accented) and "xr" (reductions ONLY: nothing is composed, a free-standing mark stays a mark).
/// And "xd": a BUNDLED language extended after construction through the same public calls (German plus an
/// acute-accent composition and its folding, and the ligature ĳ composed from and reduced back to "ij"), as an application
/// does that needs a letter the shipped tables lack.
/// And "xs": `Lang::new()` with nothing but a Snowball stemmer set through `set_stemmer` (Dutch, which the library
/// does not bundle: its stemmer folds accents that no reduction table of the language folds first).
pub const LANGS: [&str; 12] = ["none", "de", "en", "es", "fr", "pt", "ru", "xk", "xc", "xr", "xd", "xs"];
pub const NL: u64 = 12;

/// The bundled language a user-extended language starts from (its function words, stemmer, vocabulary).
pub fn base_lang(lang: &str) -> &str {
    if lang == "xd" {
        "de"
    } else {
        lang
    }
}

#[derive(Clone)]
pub struct Rng(pub u64);

impl Rng {
    pub fn new(seed: u64) -> Self {
        Rng(seed)
    }
    pub fn next(&mut self) -> u64 {
        self.0 = self.0.wrapping_add(0x9E3779B97F4A7C15);
        let mut z = self.0;
        z = (z ^ (z >> 30)).wrapping_mul(0xBF58476D1CE4E5B9);
        z = (z ^ (z >> 27)).wrapping_mul(0x94D049BB133111EB);
        z ^ (z >> 31)
    }
    pub fn below(&mut self, n: usize) -> usize {
        if n == 0 {
            return 0;
        }
        (self.next() % n as u64) as usize
    }
    pub fn range(&mut self, lo: usize, hi: usize) -> usize {
        lo + self.below(hi - lo + 1)
    }
    pub fn pick<'a, T>(&mut self, v: &'a [T]) -> &'a T {
        &v[self.below(v.len())]
    }
    pub fn chance(&mut self, num: usize, den: usize) -> bool {
        self.below(den) < num
    }
    pub fn shuffle<T>(&mut self, v: &mut Vec<T>) {
        for i in (1..v.len()).rev() {
            let j = self.below(i + 1);
            v.swap(i, j);
        }
    }
}

pub fn mix(a: u64, b: u64) -> u64 {
    let mut r = Rng(a ^ b.wrapping_mul(0xD6E8FEB86659FD93));
    r.next() ^ b
}

pub fn fnv(bytes: &[u8]) -> u64 {
    let mut h: u64 = 0xcbf29ce484222325;
    for &b in bytes {
        h ^= b as u64;
        h = h.wrapping_mul(0x100000001b3);
    }
    h
}

pub fn hstr(s: &str) -> u64 {
    fnv(s.as_bytes())
}

pub fn hparts(parts: &[&str]) -> u64 {
    let mut h = 0x1234_5678_9abc_def0u64;
    for p in parts {
        h = mix(h, hstr(p));
    }
    h
}

pub fn mk_lang(name: &str) -> Lang {
    match name {
        "de" => lang_german(),
        "en" => lang_english(),
        "es" => lang_spanish(),
        "fr" => lang_french(),
        "pt" => lang_portuguese(),
        "ru" => lang_russian(),
        "xk" => lang_custom(),
        "xs" => {
            let mut lang = Lang::new();
            lang.set_stemmer(Some(rust_stemmers::Stemmer::create(rust_stemmers::Algorithm::Dutch)));
            lang
        }
        "xc" => lang_compose_only(),
        "xd" => {
            // use, extend, use: the German language has already tokenised texts when it gets its new letter
            let mut lang = lang_german();
            let _ = tokenization::tokenize_record("Straße über 3 Brücken", &lang);
            let _ = tokenize_query("ubër", &lang);
            lang.add_unicode_composition("e\u{301}", "é");
            lang.add_unicode_composition("E\u{301}", "É");
            lang.add_unicode_reduction("é", "e");
            lang.add_unicode_reduction("É", "E");
            // ... and re-registers two keys of the bundled table with another shape (last registration wins)
            lang.add_unicode_reduction("ß", "s");
            lang.add_unicode_reduction("ẞ", "S");
            // ... and a ligature written either way: the two letters are composed into it and it is reduced back to
            // exactly those two letters (a text of such letters comes out of normalisation as it went in)
            lang.add_unicode_composition("ij", "ĳ");
            lang.add_unicode_composition("IJ", "Ĳ");
            lang.add_unicode_reduction("ĳ", "ij");
            lang.add_unicode_reduction("Ĳ", "IJ");
            lang
        }
        "xr" => lang_reduce_only(),
        _ => Lang::new(),
    }
}

/// Six two-to-one compositions and two singleton (one-to-one) canonical mappings: ANGSTROM SIGN -> A with
/// ring, GREEK ALPHA WITH OXIA -> ALPHA WITH TONOS (a composition need not shorten the text).
pub const XK_COMPOSE: [(&str, &str); 10] = [
    // half-width kana: a pair and, registered after it, a singleton that starts with the same character; the
    // singleton's result is the base of another pair, so composing twice goes further than composing once
    ("ｳﾞ", "ヴ"),
    ("ｳ", "ウ"),
    ("か\u{3099}", "が"),
    ("き\u{3099}", "ぎ"),
    ("は\u{3099}", "ば"),
    ("は\u{309a}", "ぱ"),
    ("ウ\u{3099}", "ヴ"),
    ("ש\u{5c1}", "\u{fb2a}"),
    ("\u{212b}", "\u{c5}"),
    ("\u{1f71}", "\u{3ac}"),
];
pub const XK_REDUCE: [(&str, &str); 7] = [("が", "か"), ("ぎ", "き"), ("ば", "は"), ("ぱ", "は"), ("ヴ", "ウ"), ("\u{fb2a}", "ש"), ("ゟ", "より")];

pub const XC_COMPOSE: [(&str, &str); 12] = [
    // an identity pair (a digraph registered as composing to itself: consumes two characters, changes nothing)
    ("ij", "ij"),
    // a composition to nothing: soft hyphens are dropped
    ("\u{ad}", ""),
    // a composition of two separators into one (typographic dash): texts without any word change their length too
    ("--", "\u{2014}"),
    ("a\u{308}", "ä"),
    ("o\u{308}", "ö"),
    ("u\u{308}", "ü"),
    ("A\u{308}", "Ä"),
    ("O\u{308}", "Ö"),
    ("U\u{308}", "Ü"),
    ("e\u{301}", "é"),
    ("E\u{301}", "É"),
    ("\u{212b}", "\u{c5}"),
];
/// Besides accents and ligatures: rules whose keys are plain ASCII letters ("w" -> "v", "x" -> "ks": all-ASCII titles
/// need normalising too) and a rule on a separator (ellipsis -> three dots).
pub const XR_REDUCE: [(&str, &str); 15] = [
    // a letter listed in both spellings, precomposed and as base letter + combining mark (a two-character key)
    ("å", "aa"),
    ("Å", "AA"),
    ("a\u{30a}", "aa"),
    ("A\u{30a}", "AA"),
    ("ß", "ss"),
    // a chain: the result of this entry is itself a key of the table (one pass applies one step)
    ("ẞ", "ß"),
    ("é", "e"),
    ("É", "E"),
    ("ø", "oe"),
    ("Ø", "OE"),
    ("w", "v"),
    ("W", "V"),
    ("x", "ks"),
    ("X", "KS"),
    ("\u{2026}", "..."),
];

/// Words the compositions-only language tags with a part of speech that is NOT a function-word kind (the
/// property texts name article, preposition, conjunction and particle): they stay ordinary content words.
pub const XC_TAGGED_CONTENT: [(&str, u8); 6] = [("someone", 0), ("hurrah", 1), ("garden", 2), ("running", 3), ("yellow", 4), ("quickly", 5)];

fn lang_compose_only() -> Lang {
    use lucid_suggest_core::lang::PartOfSpeech;
    let mut lang = Lang::new();
    for (from, to) in XC_COMPOSE.iter() {
        lang.add_unicode_composition(from, to);
    }
    // a key of three characters (a base letter and two marks): never applies, see the reduce-only language
    lang.add_unicode_composition("a\u{302}\u{301}", "\u{1ea5}");
    // characters that stay inside words, labelled with classes the bundled tables never use
    use lucid_suggest_core::lang::CharClass;
    lang.add_char_class('\u{b7}', CharClass::Punctuation);
    lang.add_char_class('+', CharClass::Control);
    lang.add_char_class('_', CharClass::Whitespace);
    lang.add_char_class('\'', CharClass::NotAlphaNum);
    lang.add_char_class('#', CharClass::NotAlpha);
    lang.add_char_class('q', CharClass::Any);
    for (w, k) in XC_TAGGED_CONTENT.iter() {
        let pos = [PartOfSpeech::Pronoun, PartOfSpeech::Intejection, PartOfSpeech::Noun, PartOfSpeech::Verb, PartOfSpeech::Adjective, PartOfSpeech::Adverb][*k as usize];
        lang.add_pos(w, pos);
    }
    lang
}

fn lang_reduce_only() -> Lang {
    let mut lang = Lang::new();
    for (from, to) in XR_REDUCE.iter() {
        lang.add_unicode_reduction(from, to);
    }
    // keys of three and four characters: the library looks at one and two characters at a time, so such entries never
    // apply (texts holding "sch" stay as they are) - registering them must not change anything else either
    lang.add_unicode_reduction("sch", "sh");
    lang.add_unicode_reduction("tsch", "ch");
    // four function words; the longest of them ("außer") holds a letter that the table lengthens, so its normalised
    // spelling is longer than every spelling the language was given
    use lucid_suggest_core::lang::PartOfSpeech;
    // (two of them are listed twice, first as nouns: the later listing counts - a table may say "over" the noun and
    // "over" the preposition - and an accented noun whose reduced spelling is a function word listed after it)
    lang.add_pos("zu", PartOfSpeech::Noun);
    lang.add_pos("av", PartOfSpeech::Noun);
    lang.add_pos("pé", PartOfSpeech::Noun);
    lang.add_pos("pe", PartOfSpeech::Conjunction);
    lang.add_pos("zu", PartOfSpeech::Preposition);
    lang.add_pos("av", PartOfSpeech::Preposition);
    lang.add_pos("på", PartOfSpeech::Preposition);
    lang.add_pos("außer", PartOfSpeech::Particle);
    lang
}

fn lang_custom() -> Lang {
    use lucid_suggest_core::lang::{CharClass, PartOfSpeech};
    let mut lang = Lang::new();
    for (from, to) in XK_COMPOSE.iter() {
        lang.add_unicode_composition(from, to);
    }
    for (from, to) in XK_REDUCE.iter() {
        lang.add_unicode_reduction(from, to);
    }
    lang.add_pos("の", PartOfSpeech::Particle);
    lang.add_pos("が", PartOfSpeech::Particle);
    for ch in "あいうえお".chars() {
        lang.add_char_class(ch, CharClass::Vowel);
    }
    for ch in "かきくけこさしすせそたちつてとはひふへほ".chars() {
        lang.add_char_class(ch, CharClass::Consonant);
    }
    lang
}

thread_local! {
    static LANG_POOL: RefCell<Vec<(&'static str, Lang)>> = RefCell::new(Vec::new());
}

fn static_name(name: &str) -> &'static str {
    LANGS.iter().find(|l| **l == name).copied().unwrap_or("none")
}

/// `Lang` is not `Clone` and a `Store` owns its `Lang`; building one costs a few hundred
/// map insertions, so finished stores hand their `Lang` back to a per-thread pool.
pub fn take_lang(name: &str) -> Lang {
    let name = static_name(name);
    let got = LANG_POOL.with(|p| {
        let p = &mut *p.borrow_mut();
        p.iter().position(|(n, _)| *n == name).map(|i| p.swap_remove(i).1)
    });
    got.unwrap_or_else(|| mk_lang(name))
}

pub fn give_lang(name: &str, lang: Lang) {
    let name = static_name(name);
    LANG_POOL.with(|p| {
        let p = &mut *p.borrow_mut();
        if p.len() < 64 {
            p.push((name, lang));
        }
    });
}

/// A language object used only for the public tokeniser (oracle side), one per thread and name.
pub fn with_lang<T>(name: &str, f: impl FnOnce(&Lang) -> T) -> T {
    let lang = take_lang(name);
    let out = f(&lang);
    give_lang(name, lang);
    out
}

/// The public tokenisation of a stored title for the oracle side: taken with a language object of the pool (not the
/// store's own) that tokenises an unrelated text first, so that whatever a language object keeps from its previous call
/// is not the previous title of the same store.
pub fn reference_tok(lang: &str, title: &str) -> TextOwn {
    with_lang(lang, |l| {
        let _ = tokenization::tokenize_record("zz 0", l);
        tokenization::tokenize_record(title, l)
    })
}

pub type Rec = (usize, String, usize); // (id, title, rating)
pub type Hits = Vec<(usize, String)>;

pub struct St {
    pub store: Store,
    pub lang: &'static str,
    /// One store in three keeps ONE query buffer for its whole life and writes each tokenised query into
    /// it in place (what a caller does that avoids allocating per keystroke): the same memory then holds other content from
    /// one search to the next.
    pub reuse_query_buffer: bool,
    /// For one store in five every search is preceded by the very same text tokenised by ANOTHER language
    /// (same characters typed, other normalisation: another query) - its answer is thrown away.
    pub foreign_query_first: bool,
    qbuf: std::sync::Mutex<Option<TextOwn>>,
}

/// Set by the framework before every case (one case at a time per process): decides per case what stores built during it do.
pub static CASE_SEED: std::sync::atomic::AtomicU64 = std::sync::atomic::AtomicU64::new(0);
pub static RECORD_LANGS_ON: std::sync::atomic::AtomicBool = std::sync::atomic::AtomicBool::new(false);
pub static RECORD_LANGS: std::sync::Mutex<std::collections::BTreeMap<usize, &'static str>> = std::sync::Mutex::new(std::collections::BTreeMap::new());
/// Declares (for the running case) which record ids are prepared by which language; `&[]` ends it.
pub fn set_record_langs(pairs: &[(usize, &'static str)]) {
    let mut g = match RECORD_LANGS.lock() {
        Ok(g) => g,
        Err(p) => p.into_inner(),
    };
    g.clear();
    for (id, l) in pairs {
        g.insert(*id, *l);
    }
    RECORD_LANGS_ON.store(!pairs.is_empty(), std::sync::atomic::Ordering::Relaxed);
}
pub static ST_SEQ: std::sync::atomic::AtomicU64 = std::sync::atomic::AtomicU64::new(0);
pub static QUERY_BUFFER_REUSES: std::sync::atomic::AtomicU64 = std::sync::atomic::AtomicU64::new(0);
pub static FOREIGN_QUERIES: std::sync::atomic::AtomicU64 = std::sync::atomic::AtomicU64::new(0);
pub static FOREIGN_QUERIES_THAT_DIFFER: std::sync::atomic::AtomicU64 = std::sync::atomic::AtomicU64::new(0);

impl St {
    pub fn new(lang: &str, limit: usize, markers: (&str, &str)) -> St {
        let mut store = Store::new();
        store.lang = take_lang(lang);
        store.limit = limit;
        store.highlight_with(markers);
        // (decided per store, from the case's seed and the store's number within the case: a reference store built next to the
        // observed one does not necessarily get the same treatment)
        let seq = ST_SEQ.fetch_add(1, std::sync::atomic::Ordering::Relaxed);
        let per_store = mix(CASE_SEED.load(std::sync::atomic::Ordering::Relaxed), seq);
        let reuse = mix(per_store, 0x51b0f) % 3 == 0;
        let foreign = mix(per_store, 0xf0e1) % 5 == 0;
        St { store, lang: static_name(lang), reuse_query_buffer: reuse, foreign_query_first: foreign, qbuf: std::sync::Mutex::new(None) }
    }
    pub fn sentinel(lang: &str, limit: usize) -> St {
        let (a, b) = (S1.to_string(), S2.to_string());
        St::new(lang, limit, (&a, &b))
    }
    pub fn build(lang: &str, recs: &[Rec], limit: usize, markers: (&str, &str)) -> St {
        let mut st = St::new(lang, limit, markers);
        for r in recs {
            st.add(r);
        }
        st
    }
    pub fn build_sentinel(lang: &str, recs: &[Rec], limit: usize) -> St {
        let mut st = St::sentinel(lang, limit);
        for r in recs {
            st.add(r);
        }
        st
    }
    pub fn add(&mut self, r: &Rec) {
        // (a case may declare that certain record ids are prepared by ANOTHER language than the store's - `Store::add` takes any
        // `Record`, `Record::new` any language; every store built during that case then holds that record in that tokenisation)
        if RECORD_LANGS_ON.load(std::sync::atomic::Ordering::Relaxed) {
            let over = match RECORD_LANGS.lock() {
                Ok(g) => g.get(&r.0).copied(),
                Err(p) => p.into_inner().get(&r.0).copied(),
            };
            if let Some(l) = over {
                if l != self.lang {
                    let rec = with_lang(l, |lo| Record::new(r.0, &r.1, r.2, lo));
                    self.store.add(rec);
                    return;
                }
            }
        }
        let rec = Record::new(r.0, &r.1, r.2, &self.store.lang);
        self.store.add(rec);
    }
    fn run_query(&self, q: &str) -> Vec<SearchResult> {
        let query = tokenize_query(q, &self.store.lang);
        if self.foreign_query_first {
            // preferably a language that normalises this very text differently (the first such one, starting somewhere in the list)
            let start = ((hstr(q) ^ hstr(self.lang)) % NL) as usize;
            let mut chosen: Option<TextOwn> = None;
            for k in 0..LANGS.len() {
                let other = LANGS[(start + k) % LANGS.len()];
                if other == self.lang {
                    continue;
                }
                let foreign = with_lang(other, |l| tokenize_query(q, l));
                let differs = foreign.chars != query.chars;
                if chosen.is_none() || differs {
                    chosen = Some(foreign);
                }
                if differs {
                    FOREIGN_QUERIES_THAT_DIFFER.fetch_add(1, std::sync::atomic::Ordering::Relaxed);
                    break;
                }
            }
            if let Some(foreign) = chosen {
                let _ = self.store.search(&foreign.to_ref());
                FOREIGN_QUERIES.fetch_add(1, std::sync::atomic::Ordering::Relaxed);
            }
        }
        self.with_query(query, |r| self.store.search(r))
    }
    /// Hands `query` to `f` - from the store's retained query buffer, written in place, when this store re-uses one.
    pub fn with_query<T>(&self, query: TextOwn, f: impl FnOnce(&TextRef) -> T) -> T {
        if !self.reuse_query_buffer {
            return f(&query.to_ref());
        }
        let mut slot = match self.qbuf.lock() {
            Ok(g) => g,
            Err(p) => p.into_inner(),
        };
        match slot.as_mut() {
            Some(b) => {
                b.words.clear();
                b.words.extend_from_slice(&query.words);
                b.source.clear();
                b.source.extend_from_slice(&query.source);
                b.chars.clear();
                b.chars.extend_from_slice(&query.chars);
                b.classes.clear();
                b.classes.extend_from_slice(&query.classes);
                QUERY_BUFFER_REUSES.fetch_add(1, std::sync::atomic::Ordering::Relaxed);
            }
            None => *slot = Some(query),
        }
        let b = slot.as_ref().unwrap();
        f(&b.to_ref())
    }
    pub fn search(&self, q: &str) -> Hits {
        self.run_query(q).into_iter().map(|r| (r.id, r.title)).collect()
    }
    pub fn search_ids(&self, q: &str) -> Vec<usize> {
        self.run_query(q).into_iter().map(|r| r.id).collect()
    }
    /// The public tokenisation of a query / a title for the ORACLE side. Deliberately not taken with the store's own
    /// language object: a reference computed with the object under observation, in the same order, shares whatever that
    /// object keeps between calls (see `reference_tok`).
    pub fn tok_query(&self, q: &str) -> TextOwn {
        with_lang(self.lang, |l| {
            let _ = tokenize_query("zz 0", l);
            tokenize_query(q, l)
        })
    }
    pub fn tok_record(&self, t: &str) -> TextOwn {
        reference_tok(self.lang, t)
    }
}

impl Drop for St {
    fn drop(&mut self) {
        let lang = std::mem::replace(&mut self.store.lang, Lang::new());
        give_lang(self.lang, lang);
    }
}

/// Run `f` on a thread of its own (the library's per-thread scratch state in its initial condition) and hand back its
/// result; a panic inside is re-raised here so that it is classified like any other.
pub fn on_new_thread<T: Send + 'static>(f: impl FnOnce() -> T + Send + 'static) -> T {
    match std::thread::spawn(f).join() {
        Ok(x) => x,
        Err(e) => std::panic::resume_unwind(e),
    }
}

pub fn s(chars: &[char]) -> String {
    chars.iter().collect()
}

pub fn cv(text: &str) -> Vec<char> {
    text.chars().collect()
}

pub fn word_chars<'a>(t: &'a TextOwn, i: usize) -> &'a [char] {
    let w = &t.words[i];
    &t.chars[w.slice.0..w.slice.1]
}

/// Hash of a hit list, used for the build-vs-build trace of C01.
pub fn hash_hits(hits: &Hits) -> u64 {
    let mut h = 0xabcdef12u64;
    for (id, t) in hits {
        h = mix(h, *id as u64);
        h = mix(h, hstr(t));
    }
    mix(h, hits.len() as u64)
}

pub fn esc(text: &str) -> String {
    // printable, unambiguous rendering for witnesses (JSON carries the exact string as well)
    format!("{:?}", text)
}
