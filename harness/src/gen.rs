//! Workload generators (DESIGN.md section 5). All randomness comes from the case's `Rng`.

use crate::common::*;
use crate::oracle;
use lucid_suggest_core::*;

pub const CORPUS_TSV: &str = include_str!("../data/ecommerce.tsv");
pub const TOP1000: &str = include_str!("../data/top1000_en.txt");

pub fn corpus() -> Vec<Rec> {
    CORPUS_TSV
        .lines()
        .filter_map(|l| {
            let mut p = l.splitn(3, '\t');
            let id: usize = p.next()?.parse().ok()?;
            let ra: usize = p.next()?.parse().ok()?;
            Some((id, p.next()?.to_string(), ra))
        })
        .collect()
}

pub fn top1000() -> Vec<&'static str> {
    TOP1000.lines().map(|l| l.trim()).filter(|l| !l.is_empty()).collect()
}

/// Frozen per-language vocabulary: every accented letter of the language's tables (both cases),
/// expanding folds, inflected forms that the stemmers shorten, function words, short codes.
pub fn vocab(lang: &str) -> Vec<&'static str> {
    let mut v: Vec<&'static str> = match base_lang(lang) {
        "de" => vec![
            "der", "die", "das", "und", "mit", "für", "zu", "an", "auf", "ja", "bloß", "während", "über", "straße",
            "Straße", "STRASSE", "mädchen", "Mädchen", "mitteltöner", "Mitteltöner", "Passstraße", "größe", "Größe",
            "fußball", "schön", "Schön", "kinder", "kindern", "wasser", "grün", "Grün", "weiß", "häuser", "Häuser",
            "singen", "gesungen", "läufer", "Läufer", "Ärger", "ärgerlich", "Öl", "ölig", "Übung", "übungen", "ẞ",
            "aß", "maße", "masse", "Äpfel", "äpfel", "Österreich", "österreichisch", "Überraschung", "tür", "türen",
            "bücher", "buch", "möglich", "möglichkeiten", "freundlichkeit", "geschwindigkeit", "autobahnen",
            "krankenhäuser", "zusammenarbeit", "entwicklungen", "ma\u{308}dchen", "u\u{308}ber", "O\u{308}l",
            "A\u{308}rger", "U\u{308}bung", "scho\u{308}n",
        ],
        "es" => vec![
            "el", "la", "de", "y", "con", "para", "en", "un", "a", "o", "según", "más", "cepillo", "dientes", "niño",
            "Niño", "NIÑO", "corazón", "Corazón", "pingüino", "Pingüino", "árbol", "Árbol", "música", "Música",
            "camión", "camiones", "teléfono", "Teléfono", "él", "Él", "éxito", "Éxito", "índice", "Índice", "ópera",
            "Ópera", "último", "Último", "ñandú", "Ñandú", "vergüenza", "Üb", "üb", "canción", "canciones",
            "rápidamente", "habitación", "habitaciones", "trabajando", "trabajadores", "universidades", "biblioteca",
            "nin\u{303}o", "corazo\u{301}n", "a\u{301}rbol", "mu\u{301}sica", "pingu\u{308}ino", "E\u{301}xito",
            "I\u{301}ndice", "O\u{301}pera", "U\u{301}ltimo", "N\u{303}andu\u{301}",
        ],
        "fr" => vec![
            "le", "la", "de", "et", "avec", "pour", "à", "un", "une", "du", "des", "dans", "sur", "par", "où", "être",
            "Être", "garçon", "Garçon", "fenêtre", "cœur", "Cœur", "œuf", "Œuf", "Œuvre", "œuvre", "noël", "Noël",
            "élève", "Élève", "français", "Français", "château", "Château", "naïve", "Naïve", "æther", "Æther",
            "ø", "Ø", "søren", "àccent", "Àccent", "èque", "Èque", "ùnique", "Ùnique", "âge", "Âge", "êtres", "Êtres",
            "île", "Île", "ôter", "Ôter", "sûr", "Sûr", "ëx", "Ëx", "ïx", "Ïx", "üx", "Üx", "ÿx", "Ÿx", "ça", "Ça",
            "ñu", "Ñu", "développement", "développements", "gouvernement", "nationalités", "heureusement",
            "e\u{301}le\u{300}ve", "garc\u{327}on", "fene\u{302}tre", "noe\u{308}l", "nai\u{308}ve", "cha\u{302}teau",
            "A\u{300}ccent", "U\u{300}nique", "I\u{302}le", "O\u{302}ter", "Y\u{308}x", "C\u{327}a", "N\u{303}u",
        ],
        "pt" => vec![
            "o", "a", "de", "e", "com", "para", "em", "um", "uma", "os", "as", "não", "Não", "coração", "Coração",
            "maçã", "Maçã", "pão", "você", "Você", "avô", "Avô", "às", "Às", "três", "informações", "informação",
            "ótimo", "Ótimo", "água", "Água", "é", "É", "índio", "Índio", "último", "Último", "âmbar", "Âmbar",
            "êxito", "Êxito", "ônibus", "Ônibus", "ãx", "Ãx", "õx", "Õx", "àquele", "Àquele", "èx", "Èx", "ìx", "Ìx",
            "òx", "Òx", "ùx", "Ùx", "çx", "Çx", "trabalhadores", "universidades", "felizmente", "desenvolvimento",
            "corac\u{327}a\u{303}o", "a\u{301}gua", "voce\u{302}", "na\u{303}o", "a\u{300}s", "tre\u{302}s",
            "I\u{301}ndio", "O\u{303}x", "U\u{300}x",
        ],
        "ru" => vec![
            "и", "в", "на", "с", "для", "не", "же", "по", "а", "но", "ёлка", "Ёлка", "ЁЛКА", "елка", "ежик", "ёжик",
            "мёд", "мед", "стол", "столы", "столами", "книга", "книги", "книгами", "зелёный", "зеленый", "чёрный",
            "университет", "университеты", "университетами", "Ёж", "ёж", "её", "ещё", "путём", "красивая",
            "красивыми", "работающий", "работающими", "программирование", "е\u{308}лка", "Е\u{308}ж", "ме\u{308}д",
            "зеле\u{308}ный", "машина", "машинами", "хорошо", "большой", "большими",
        ],
        "xk" => vec![
            "ｳﾞァイオリン", "ｳイルス", "ｳ\u{3099}ァイオリン", "がっこう", "ぱん", "かばん", "ぎんこう", "の", "が", "はし", "ばしょ", "ヴァイオリン", "ウイルス", "ゟ", "ゟり", "か\u{3099}っこう",
            "は\u{309a}ん", "き\u{3099}んこう", "ウ\u{3099}ァイオリン", "\u{fb2a}לום", "שלום", "ש\u{5c1}לום", "かっこう", "はん", "きんこう", "さくら", "すし",
            "てんぷら", "とうきょう", "おおさか", "metal", "mailbox", "がくせい", "ぱすた", "ばなな", "\u{212b}ngstrom", "\u{c5}ngstrom", "\u{1f71}λφα", "\u{3ac}λφα", "か\u{212b}",
        ],
        "xc" => vec![
            "über", "u\u{308}ber", "Über", "U\u{308}ber", "café", "cafe\u{301}", "CAFE\u{301}", "\u{212b}ngstrom", "\u{c5}ngstrom", "Ärger", "A\u{308}rger", "schön", "scho\u{308}n",
            "metal", "mailbox", "yellow", "detector", "the", "of", "straße", "uber", "cafe", "ö", "o\u{308}", "möbel", "mo\u{308}bel", "naïve", "e\u{301}", "été", "e\u{301}te\u{301}",
            "bijoux dore\u{301}s", "ijs", "mijn u\u{308}ber", "lijke\u{301}", "auto\u{ad}mat", "automat", "\u{ad}soft", "hy\u{ad}\u{ad}phen", "end\u{ad}",
            "col\u{b7}leccio", "paral\u{b7}lel", "c++11", "snake_case_name", "o'clock", "c#sharp", "l\u{b7}l",
            "a\u{302}\u{301}b", "la\u{302}\u{301}u", "\u{1ea5}b",
        ],
        "xs" => vec![
            "één", "óók", "kopje", "kopjes", "koffie", "fietsen", "fiets", "lopen", "loop", "huizen", "huis", "mogelijkheid", "mogelijkheden", "vrijheid", "Één", "ÉÉN",
            "metal", "mailbox", "yellow", "detector", "de", "het", "een", "wandelen", "gewandeld", "zeeën", "ideeën", "café", "cafés", "überhaupt", "à", "èn",
        ],
        "xr" => vec![
            "gås", "ga\u{30a}s", "GÅS", "GA\u{30a}S", "gaas", "blå", "bla\u{30a}", "café", "cafe", "CAFÉ", "cafe\u{301}", "straße", "strasse", "STRASSE", "GROẞ", "groß", "smørrebrød", "smoerrebroed", "Øl", "øl", "été", "ete", "é", "ß", "ø",
            "metal", "mailbox", "yellow", "detector", "the", "of", "über", "u\u{308}ber", "fußball", "fussball", "résumé", "resume",
            "schule", "fisch", "deutsch", "SCHULE", "tschüs",
        ],
        "en" => vec![
            "the", "a", "an", "of", "to", "and", "in", "for", "with", "on", "at", "by", "metal", "mailbox", "yellow",
            "detector", "thesaurus", "router", "toothbrush", "batteries", "battery", "university", "universe",
            "universal", "microbiology", "nightlight", "night", "light", "it", "is", "running", "runner", "ran",
            "happiness", "happily", "generously", "generalization", "organizations", "conditional", "relational",
            "electricity", "electrical", "hopefulness", "ponies", "caresses", "agreed", "plastered", "motoring",
            "sensational", "vietnamization", "communism", "skies", "dying", "lying", "news", "inning", "proceed",
            "exceeding", "succeeded", "cable", "lightning", "charger", "wireless", "bluetooth", "headphones",
        ],
        _ => vec![
            "the", "a", "of", "to", "metal", "mailbox", "yellow", "detector", "thesaurus", "router", "toothbrush",
            "batteries", "university", "universe", "microbiology", "nightlight", "night", "light", "it", "is",
            "straße", "élève", "ёлка", "niño", "cœur", "Über", "zoë", "İstanbul", "ǅungla", "ﬁsh", "ǆ", "ß",
        ],
    };
    if lang == "xd" {
        v.extend(vec!["café", "cafe\u{301}", "Éclair", "E\u{301}clair", "résumé", "re\u{301}sume\u{301}", "idee", "idée", "ijsvrij", "ĳsvrĳ", "blijft", "IJssel", "Ĳssel", "bijou"]);
    }
    v.extend(vec![
        "wifi", "wi", "fi", "usb", "t", "x", "50s", "50's", "500w", "a4", "shirt", "aa", "ab", "aab", "abab", "t-shirt",
        "wi-fi", "3d", "mp3", "2x4", "b",
    ]);
    v
}

pub const SEPS: &[&str] = &[
    " ", " ", " ", " ", "-", ", ", "  ", ".", " & ", "\t", "\u{a0}", "'", "_", "/", "\0", "!", "\u{2011}", "\u{2026}", ": ",
    " - ", "\n", "+", "(", ") ",
];

/// Separators of exactly one character (C14's joined clause).
pub const SEPS1: &[&str] = &[" ", "-", ".", "\t", "\u{a0}", "'", "_", "/", "\0", "!", "\u{2011}", ",", "+", "&"];

pub const HOSTILE: &[&str] = &[
    "a", "b", "c", "e", "o", "s", "t", "ss", "A", "B", "E", "O", "S", "1", "2", "0", " ", " ", " ", "-", ".", ",", "'",
    "_", "\t", "\n", "\0", "\u{a0}", "\u{2009}", "\u{200b}", "\u{2011}", "\u{2026}", "&", "$", "#", "+", "ß", "ẞ", "ö", "Ö",
    "o\u{308}", "O\u{308}", "é", "e\u{301}", "E\u{301}", "œ", "Œ", "æ", "ø", "Ø", "ñ", "n\u{303}", "ç", "c\u{327}", "ã",
    "a\u{303}", "ё", "е\u{308}", "Ё", "Е\u{308}", "й", "и\u{306}", "\u{301}", "\u{308}", "\u{303}", "\u{327}", "ǅ", "ǆ",
    "Ǆ", "𝐀", "İ", "ı", "ſ", "Σ", "ς", "σ", "ﬁ", "Ⓐ", "ⓐ", "ª", "²", "½", "٣", "漢", "字", "😀", "\u{202e}", "\u{feff}",
    "\u{7f}", "\u{85}", "д", "Д", "и", "в", "на", "the", "to", "of", "der", "für", "le", "à", "el", "de", "o", "не",
    "metal", "shirt", "t-shirt", "wi-fi", "tshirt", "wifi", "x", "T", "ü", "Ü", "u\u{308}", "ÿ", "Ÿ", "\u{2028}", "\u{2029}",
    "\u{3000}", "\u{ff0c}", "\u{2010}", "\u{2012}", "\u{2013}", "\u{2014}", "\u{ad}", "\u{1680}", "\u{180e}", "\u{2060}", "\u{ff21}", "\u{ff41}",
    "\u{1e9e}", "\u{130}x", "ǈ", "ǋ", "\u{2160}", "\u{2170}", "\u{24b6}", "rtx4090ti", "a4b", "3d", "\u{0}\u{0}", "\u{301}\u{301}", "e\u{301}\u{308}",
];

pub fn hostile(rng: &mut Rng, maxlen: usize) -> String {
    let n = rng.below(maxlen + 1);
    (0..n).map(|_| *rng.pick(HOSTILE)).collect()
}

pub fn lower_alphabet(lang: &str) -> Vec<char> {
    if lang == "ru" {
        "абвгдежзиклмнопрстуфхцчшщыэюя".chars().collect()
    } else if lang == "xk" {
        "あいうえおかきくけこさしすせそたちつてとなにぬねのはひふへほ".chars().collect()
    } else {
        "abcdefghijklmnopqrstuvwxyz".chars().collect()
    }
}

pub fn rand_word(rng: &mut Rng, alpha: &[char], lo: usize, hi: usize) -> String {
    let n = rng.range(lo, hi);
    (0..n).map(|_| *rng.pick(alpha)).collect()
}

/// A synthetic word: mostly vocabulary, sometimes uniform letters, doubled letters or very long.
pub fn any_word(rng: &mut Rng, lang: &str) -> String {
    let v = vocab(lang);
    let alpha = lower_alphabet(lang);
    match rng.below(20) {
        0..=11 => rng.pick(&v).to_string(),
        12 | 13 | 14 => rand_word(rng, &alpha, 1, 12),
        15 | 16 => {
            let two = [*rng.pick(&alpha), *rng.pick(&alpha)];
            rand_word(rng, &two, 1, 9)
        }
        17 if rng.chance(1, 6) => {
            // letters outside the Basic Multilingual Plane (Deseret, lower case with one-to-one capitals): ordinary letters
            // to the tokeniser, two UTF-16 units and four UTF-8 bytes each
            let deseret: Vec<char> = (0..12u32).filter_map(|k| std::char::from_u32(0x10428 + k)).collect();
            let w = rand_word(rng, &deseret, 3, 9);
            if rng.chance(1, 4) { format!("{}{}", rand_word(rng, &alpha, 1, 3), w) } else { w }
        }
        17 => match rng.below(12) {
            0 => rand_word(rng, &alpha, 71, 300),
            1 | 2 => {
                // a long run of one or two symbols followed by a burst of different ones ("000000000012")
                let a = if rng.chance(1, 2) { *rng.pick(&alpha) } else { *rng.pick(&['0', '1', '7']) };
                let b = if rng.chance(1, 3) { *rng.pick(&alpha) } else { a };
                let n = rng.range(6, 30);
                let mut w: String = (0..n).map(|k| if k % 2 == 0 { a } else { b }).collect();
                w.push_str(&rand_word(rng, &alpha, 1, 6));
                if rng.chance(1, 2) {
                    w.push_str(&rng.range(0, 999).to_string());
                }
                w
            }
            _ => rand_word(rng, &alpha, 18, 70),
        },
        18 if rng.chance(1, 3) => {
            // symbols that neither split words nor count as letters, inside a word: "c++11", "4''x6", "a**b", "tcp/ip"
            let sym: Vec<char> = "+*/'\"#_=@%^~|$".chars().collect();
            let digits: Vec<char> = "0123456789".chars().collect();
            let run: String = { let c = *rng.pick(&sym); (0..rng.range(1, 3)).map(|_| if rng.chance(1, 4) { *rng.pick(&sym) } else { c }).collect() };
            let head = rand_word(rng, &alpha, 1, 5);
            let tail = if rng.chance(1, 2) { rand_word(rng, &digits, 1, 3) } else { rand_word(rng, &alpha, 1, 5) };
            format!("{}{}{}", head, run, tail)
        }
        18 => {
            // digits: ASCII mostly; sometimes full-width, Arabic-Indic or Devanagari ones, superscripts and fractions
            // (all of them count as alphanumeric)
            let digits: Vec<char> = match rng.below(8) {
                0 => "０１２３４５６７８９".chars().collect(),
                1 => "٠١٢٣٤٥٦٧٨٩".chars().collect(),
                2 => "०१२३²³½¼".chars().collect(),
                _ => "0123456789".chars().collect(),
            };
            let mut w = rand_word(rng, &digits, 1, 4);
            if rng.chance(1, 2) {
                w.push_str(&rand_word(rng, &alpha, 1, 3));
            }
            if rng.chance(1, 3) {
                // product codes: letters, digits, letters ("rtx4090ti")
                w = format!("{}{}{}", rand_word(rng, &alpha, 1, 4), w, rand_word(rng, &digits, 0, 3));
            }
            w
        }
        19 if rng.chance(1, 4) && !table_keys(lang).is_empty() => lookalike_word(rng, lang),
        _ => {
            // accented synthetic word from the language's inventory
            let acc = oracle::accents(lang);
            let n = rng.range(2, 9);
            (0..n)
                .map(|_| if !acc.is_empty() && rng.chance(1, 3) { rng.pick(&acc).composed } else { *rng.pick(&alpha) })
                .collect()
        }
    }
}

/// The keys of a language's normalisation tables: (first, second) character of every two-character key and
/// (key, None) of every one-character key (compositions and reductions alike).
pub fn table_keys(lang: &str) -> Vec<(char, Option<char>)> {
    let mut out: Vec<(char, Option<char>)> = vec![];
    for a in oracle::accents(lang).into_iter().chain(oracle::reduced_pairs(lang)) {
        out.push((a.base, Some(a.mark)));
        if oracle::folds_composed(lang) {
            out.push((a.composed, None));
        }
    }
    for (a, b, _) in oracle::symbol_pairs(lang) {
        out.push((a, Some(b)));
    }
    for (a, _) in oracle::singleton_table(lang) {
        out.push((a, None));
    }
    for (a, _) in oracle::expanding_table(lang) {
        out.push((a, None));
    }
    for a in oracle::deleted_by_composition(lang) {
        out.push((a, None));
    }
    out
}

/// A character that is NOT `ch` but would be taken for it by a table that keeps fewer bits per character than a
/// character has (8, 16 or 20), or `ch` itself when no such character exists.
pub fn lookalike_char(rng: &mut Rng, ch: char) -> char {
    let c = ch as u32;
    let cand = match rng.below(4) {
        0 => c + 0x100 * rng.range(1, 4) as u32,
        1 | 2 => c + 0x10000 * rng.range(1, 16) as u32,
        _ => c + 0x100000,
    };
    std::char::from_u32(cand).unwrap_or(ch)
}

/// A pair that is NOT (c1, c2) but would get the same key if the two were packed into one integer with fewer bits per
/// character than a character has: one of them replaced by a look-alike, or the second one pushed past the field
/// width with the overflow landing in the first one's lowest bit.
pub fn lookalike_pair(rng: &mut Rng, c1: char, c2: char) -> (char, char) {
    match rng.below(4) {
        0 => (lookalike_char(rng, c1), c2),
        1 => (c1, lookalike_char(rng, c2)),
        _ => {
            let width = *rng.pick(&[8u32, 16, 16, 20]);
            let second = std::char::from_u32(c2 as u32 + (1 << width));
            let first = if rng.chance(1, 2) { Some(c1) } else { std::char::from_u32((c1 as u32).wrapping_sub(1)) };
            match (first, second) {
                (Some(a), Some(b)) => (a, b),
                _ => (lookalike_char(rng, c1), c2),
            }
        }
    }
}

/// A word around a look-alike of one key of the language's normalisation tables (`table_keys` must not be empty):
/// nothing in it is a key, so normalisation leaves those characters alone.
pub fn lookalike_word(rng: &mut Rng, lang: &str) -> String {
    let keys = table_keys(lang);
    let alpha = lower_alphabet(lang);
    let (a, b) = *rng.pick(&keys);
    let mut w = rand_word(rng, &alpha, 0, 3);
    match b {
        Some(b) => {
            let (x, y) = lookalike_pair(rng, a, b);
            w.push(x);
            w.push(y);
        }
        None => w.push(lookalike_char(rng, a)),
    }
    w.push_str(&rand_word(rng, &alpha, 0, 3));
    if !oracle::has_alnum(&w) {
        w.push(alpha[0]);
    }
    w
}

/// A word that is NOT `w` but shares a trigram key with it under a narrow packing (see `lookalike_pair`).
pub fn lookalike_of_word(rng: &mut Rng, w: &[char]) -> Vec<char> {
    let mut out = w.to_vec();
    if out.is_empty() {
        return out;
    }
    let p = rng.below(out.len());
    if p > 0 && rng.chance(1, 2) {
        let (x, y) = lookalike_pair(rng, out[p - 1], out[p]);
        out[p - 1] = x;
        out[p] = y;
    } else {
        out[p] = lookalike_char(rng, out[p]);
    }
    out
}

pub fn rand_title(rng: &mut Rng, lang: &str, max_words: usize) -> String {
    let n = rng.range(1, max_words.max(1));
    let mut text = String::new();
    if rng.chance(1, 8) {
        text.push_str(*rng.pick(SEPS));
    }
    for i in 0..n {
        if i > 0 {
            text.push_str(*rng.pick(SEPS));
        }
        text.push_str(&any_word(rng, lang));
    }
    if rng.chance(1, 8) {
        text.push_str(*rng.pick(SEPS));
    }
    text
}

/// Titles from the e-commerce corpus for English/none, synthetic otherwise.
pub fn realistic_title(rng: &mut Rng, lang: &str, corpus: &[Rec]) -> String {
    if (lang == "en" || lang == "none") && rng.chance(1, 2) && !corpus.is_empty() {
        rng.pick(corpus).1.clone()
    } else {
        rand_title(rng, lang, 4)
    }
}

/// Store records with unique ids and (optionally) pairwise distinct ratings.
pub fn rand_recs(rng: &mut Rng, lang: &str, n: usize, distinct_ratings: bool, corpus: &[Rec]) -> Vec<Rec> {
    let mut ratings: Vec<usize> = (0..n).map(|i| if distinct_ratings { i * 7 + 1 + rng.below(7) } else { rng.below(4) }).collect();
    scale_ratings(rng, &mut ratings);
    rng.shuffle(&mut ratings);
    let odd = rng.chance(1, 3);
    let mut idrng = rng.clone();
    (0..n)
        .map(|i| {
            let id = if odd { odd_id(&mut idrng, i) } else { 100 + i * 3 };
            // one title in twenty is a long listing of 21-40 words (beyond the 20-slot match buffers)
            let t = match rng.below(20) {
                0 => long_title(rng, lang),
                1 | 2 => shaped_title(rng, lang),
                // a record without any word (it has no obligations of its own, its neighbours keep theirs)
                3 if rng.chance(1, 2) => rng.pick(&["", " - ", "!!!", "\u{301}", "'"]).to_string(),
                _ => realistic_title(rng, lang, corpus),
            };
            (id, t, ratings[i])
        })
        .collect()
}

/// Title shapes random generation rarely produces: repeated words, a last word that extends the
/// first, equal halves, only very short words, a word next to its own first half.
pub fn shaped_title(rng: &mut Rng, lang: &str) -> String {
    let alpha = lower_alphabet(lang);
    let v = vocab(lang);
    let pickw = |rng: &mut Rng| -> String { if rng.chance(1, 2) { rng.pick(&v).to_string() } else { rand_word(rng, &alpha, 3, 8) } };
    let w = pickw(rng);
    let x = pickw(rng);
    let sep = *rng.pick(&[" ", " ", "-", ", "]);
    match rng.below(17) {
        12 => {
            // a word and its two halves as words of their own ("firefly fire fly"), in either order
            let cs: Vec<char> = w.chars().collect();
            let k = (cs.len() / 2).max(1);
            let (a, b): (String, String) = (cs[..k].iter().collect(), cs[k..].iter().collect());
            if rng.chance(1, 2) { format!("{w}{s}{a}{s}{b}", w = w, a = a, b = b, s = sep) } else { format!("{a}{s}{b}{s}{w}", w = w, a = a, b = b, s = sep) }
        }
        13 => {
            // a doubled letter in the middle of a word ("ballon"), alone or next to another word
            let l = *rng.pick(&alpha);
            let d = format!("{}{}{}{}", rand_word(rng, &alpha, 1, 4), l, l, rand_word(rng, &alpha, 1, 4));
            if rng.chance(1, 2) { d } else { format!("{d}{s}{x}", d = d, x = x, s = sep) }
        }
        14 => {
            // nine to sixteen words of one or two letters
            (0..rng.range(9, 16)).map(|_| rand_word(rng, &alpha, 1, 2)).collect::<Vec<_>>().join(sep)
        }
        15 => {
            // a one-letter word (often a function word: 'a', 'o', 'y', 'и') in front of a word, and their joined spelling
            let one = rand_word(rng, &alpha, 1, 1);
            if rng.chance(1, 2) { format!("{o}{s}{w}", o = one, w = w, s = sep) } else { format!("{o}{w}{s}{x}", o = one, w = w, x = x, s = sep) }
        }
        16 => {
            // a later word equal to the run-together spelling of an earlier pair
            format!("{w}{s}{x}{s}{w}{x}", w = w, x = x, s = sep)
        }
        9 | 10 | 11 => {
            // a short first word, a long word that starts like "first word + last word", a very short last word:
            // "mit hochtoner mitteltoner e", "a room in the apartment p"
            let listed: Vec<String> = crate::oracle::listed_function_words(lang).into_iter().filter(|f| f.chars().count() <= 4).collect();
            let a = if !listed.is_empty() && rng.chance(1, 2) { rng.pick(&listed).clone() } else { rand_word(rng, &alpha, 1, 4) };
            let b = rand_word(rng, &alpha, 1, 2);
            let glue = if rng.chance(1, 2) { "" } else { "x" };
            let long = format!("{}{}{}{}", a, glue, b, rand_word(rng, &alpha, 5, 10));
            let mid = pickw(rng);
            match rng.below(3) {
                0 => format!("{a}{s}{mid}{s}{long}{s}{b}", a = a, mid = mid, long = long, b = b, s = sep),
                1 => format!("{a}{s}{long}{s}{b}", a = a, long = long, b = b, s = sep),
                _ => format!("{a}{s}{long}{s}{mid}{s}{b}", a = a, mid = mid, long = long, b = b, s = sep),
            }
        }
        0 => format!("{w}{s}{w}{s}{w}", w = w, s = sep),
        1 => format!("{w}{s}{x}{s}{w}", w = w, x = x, s = sep),
        2 => format!("{w}{s}{x}{s}{w}{c}", w = w, x = x, s = sep, c = rng.pick(&alpha)),
        3 => {
            let h = rand_word(rng, &alpha, 2, 4);
            format!("{h}{h}{s}{x}", h = h, x = x, s = sep)
        }
        4 => (0..rng.range(2, 5)).map(|_| rand_word(rng, &alpha, 1, 2)).collect::<Vec<_>>().join(sep),
        5 => {
            let cs: Vec<char> = w.chars().collect();
            let k = (cs.len() / 2).max(1);
            format!("{h}{s}{w}", h = cs[..k].iter().collect::<String>(), w = w, s = sep)
        }
        6 => {
            // second word starts with the first word's last letter
            let last = w.chars().last().unwrap_or('a');
            format!("{w}{s}{l}{x}", w = w, l = last, x = x, s = sep)
        }
        7 => format!("{w}{suf}{s}{x}", w = rand_word(rng, &alpha, 3, 6), suf = rng.pick(&suffixes(lang)), x = x, s = sep),
        _ => format!("{w}{s}{w}{suf}", w = w, s = sep, suf = rng.pick(&suffixes(lang))),
    }
}

pub fn long_title(rng: &mut Rng, lang: &str) -> String {
    // beyond the 20-slot buffers; one in five beyond 64 and 128 words as well
    // ... and one in twenty-five beyond 256 words (a query made of the whole title then matches more than 255 words)
    let n = if rng.chance(1, 25) { rng.range(257, 330) } else if rng.chance(1, 5) { rng.range(65, 140) } else { rng.range(21, 40) };
    let alpha = lower_alphabet(lang);
    let v = vocab(lang);
    let mut words: Vec<String> = vec![];
    for _ in 0..n {
        words.push(if rng.chance(1, 2) { rng.pick(&v).to_string() } else { rand_word(rng, &alpha, 2, 9) });
    }
    words.join(*rng.pick(&[" ", " ", ", ", " - "]))
}

pub fn tok_record(lang: &Lang, title: &str) -> TextOwn {
    tokenization::tokenize_record(title, lang)
}

/// One random edit of a word (used where the edited word need not be a qualifying C04 edit).
pub fn rand_edit(rng: &mut Rng, w: &[char], alpha: &[char]) -> Vec<char> {
    let mut e = w.to_vec();
    if e.is_empty() {
        return e;
    }
    let pos = rng.below(e.len());
    match rng.below(4) {
        0 => e[pos] = *rng.pick(alpha),
        1 => e.insert(pos, *rng.pick(alpha)),
        2 => {
            e.remove(pos);
        }
        _ => {
            if pos + 1 < e.len() {
                e.swap(pos, pos + 1);
            }
        }
    }
    e
}

/// A query related to a stored title: substring, prefix of a word, joined/split/typo variants.
pub fn related_query(rng: &mut Rng, lang: &str, lobj: &Lang, title: &str) -> String {
    let tok = tok_record(lobj, title);
    let alpha = lower_alphabet(lang);
    if tok.words.is_empty() {
        return hostile(rng, 4);
    }
    let wi = rng.below(tok.words.len());
    let w: Vec<char> = word_chars(&tok, wi).to_vec();
    match rng.below(9) {
        0 => {
            let t: Vec<char> = title.chars().collect();
            let a = rng.below(t.len());
            let b = a + 1 + rng.below(t.len() - a);
            s(&t[a..b])
        }
        1 => s(&w[..rng.range(1, w.len())]),
        2 => s(&w),
        3 => s(&rand_edit(rng, &w, &alpha)),
        4 => {
            // split
            if w.len() >= 2 {
                let k = rng.range(1, w.len() - 1);
                format!("{} {}", s(&w[..k]), s(&w[k..]))
            } else {
                s(&w)
            }
        }
        5 => {
            // joined with the next word
            if wi + 1 < tok.words.len() {
                let w2 = word_chars(&tok, wi + 1);
                let mut j = w.clone();
                j.extend_from_slice(w2);
                if rng.chance(1, 3) {
                    j = rand_edit(rng, &j, &alpha);
                }
                s(&j)
            } else {
                s(&w)
            }
        }
        6 => {
            // two words, any order
            let w2 = word_chars(&tok, rng.below(tok.words.len()));
            format!("{} {}", s(w2), s(&w))
        }
        7 => title.to_string(),
        _ => {
            let mut q = s(&w[..rng.range(1, w.len())]);
            q.push_str(*rng.pick(SEPS));
            q.push_str(&any_word(rng, lang));
            q
        }
    }
}

pub fn rand_limit(rng: &mut Rng) -> usize {
    match rng.below(10) {
        0 => 0,
        1 => 1,
        2 => 65536,
        3 => 10,
        4 => *rng.pick(&[13, 16, 64, 100, 255, 256, 1000, 4096, 6553, 6554, 32768, 65535]),
        5 => rng.range(13, 4096),
        _ => rng.below(13),
    }
}

/// Record ids are arbitrary `usize` values: mostly small, sometimes 0, beyond 2^32 or near usize::MAX.
/// `i` keeps ids of one store distinct.
pub fn odd_id(rng: &mut Rng, i: usize) -> usize {
    match rng.below(10) {
        0 => (1usize << 32) + i * 3,
        1 => usize::MAX - i,
        2 => (1usize << 31) - 1 - i,
        3 => i * 65536,
        4 => (1usize << 63).wrapping_add(i), // isize::MIN as a bit pattern for the first record
        5 => (1usize << 63) - 1 - i,
        _ => 100 + i * 3,
    }
}

pub const LONG_MARKER_600: &str = "<mark data-x=\"0123456789012345678901234567890123456789012345678901234567890123456789012345678901234567890123456789012345678901234567890123456789012345678901234567890123456789012345678901234567890123456789012345678901234567890123456789012345678901234567890123456789012345678901234567890123456789012345678901234567890123456789012345678901234567890123456789012345678901234567890123456789012345678901234567890123456789012345678901234567890123456789012345678901234567890123456789012345678901234567890123456789012345678901234567890123456789012345678901234567890123456789012345678901234567890123456789012345678901234567890123456789012345678901234567890123456789\">";
pub const LONG_MARKER_5000: &str = include_str!("../data/long_marker.txt");

/// Pairs of marker pairs meant to be set one right after the other: the second is a prefix of the first (or the other way
/// round), has as many bytes as the first has characters, as many characters but other bytes, the same bytes in other
/// order - whatever a "did the markers change?" test could get wrong.
pub const MARKER_STEPS: &[[(&str, &str); 2]] = &[
    [("\u{2192}  ", "]"), ("\u{2192}", "]")],
    [("é ", "» "), ("é", "»")],
    [("ab", "cd"), ("é", "ü")],
    [("<b>", "</b>"), ("<b", "</b")],
    [("[[", "]]"), ("[", "]")],
    [("😀   ", "😀   "), ("😀", "😀")],
    [("[", "]"), ("[ ", " ]")],
    [("«", "»"), ("«»", "»«")],
    [("ab", "ba"), ("ba", "ab")],
    [("e\u{301}", "]"), ("é", "]")],
];

pub const MARKERS: &[(&str, &str)] = &[
    ("[", "]"),
    ("", ""),
    ("<b>", "</b>"),
    ("{{", "}}"),
    ("a", "a"),
    (" ", " "),
    ("ß", "ß"),
    ("\0x", "y\0"),
    ("metal", "shirt"),
    ("[", ""),
    ("", "]"),
    ("\u{308}", "\u{301}"),
    ("<<", "<"),
    ("é", "e\u{301}"),
    ("<span class=\"hl\">", "</span>"),
    ("**", "**"),
    ("<<<<<<<<<<<<<<<<<<<<<<<<<<<<<<<<<<<<<<<<<<<<<<<<<<<<<<<<<<<<<<<<", ">>>>>>>>>>>>>>>>>>>>>>>>>>>>>>>>>>>>>>>>>>>>>>>>>>>>>>>>>>>>>>>>"),
    ("\u{e002}", "\u{e003}"),
    ("𝐀", "😀"),
    ("ab", "abc"),
    (LONG_MARKER_600, "]"),
    ("[", LONG_MARKER_5000),
    ("x", "xx"),
    ("}}", "{{"),
    ("[[[[[[[[[[[[[[[[[[[[[[[[[[[[[[[[[[[[[[[[[[[[[[[[[[[[[[[[[[[[[[[[[[[[[[[[[[[[[[[[[[[[[[[[[[[[[[[[[[[[[[[[[[[[[[[[[[[[[[[[[[[[[[[[[[[[[[[[[[[[[[[[[[[[[[[[[[[[[[[[[[[[[[[[[[[[[[[[[[[[[[[[[[[[[[[[[[[[[[[[[[[[[[[[[[[[[[[[[[[[[[[[[[[[[[[[[[[[[[[[[[[[[[[[[[[[[[[[[[[[[[[[[[[[[[[[[[[[[[[[[[[[[[[[[[[[", "]"),
];

/// Spread a small rating over the whole allowed range [0, 2^31): order-preserving, distinct stays distinct.
pub fn scale_ratings(rng: &mut Rng, ratings: &mut Vec<usize>) {
    let max = ratings.iter().cloned().max().unwrap_or(0) + 1;
    match rng.below(5) {
        0 => {
            let f = ((1usize << 31) - 1) / max;
            for r in ratings.iter_mut() {
                *r *= f;
            }
        }
        1 => {
            for r in ratings.iter_mut() {
                *r = *r * 65536 + 1;
            }
        }
        2 => {
            let base = (1usize << 31) - 1 - max;
            for r in ratings.iter_mut() {
                *r += base;
            }
        }
        _ => {}
    }
}

/// Inflectional endings the Snowball stemmers strip (some with accents), to glue onto random stems.
pub fn suffixes(lang: &str) -> Vec<&'static str> {
    match base_lang(lang) {
        "en" => vec!["ing", "ed", "es", "s", "ly", "ness", "ation", "ies"],
        "de" => vec!["en", "er", "ung", "ungen", "chen", "lich", "ös", "ünde"],
        "es" => vec!["ción", "ciones", "ando", "os", "ía", "és", "mente"],
        "fr" => vec!["é", "ée", "ées", "ère", "ement", "es", "ât", "ions"],
        "pt" => vec!["ção", "ções", "mente", "os", "ável", "ês", "ão"],
        "ru" => vec!["ами", "ов", "ём", "ёт", "ой", "ая", "ого", "ить"],
        "xs" => vec!["en", "je", "jes", "heid", "heden", "ën", "s"],
        _ => vec!["ing", "s"],
    }
}
