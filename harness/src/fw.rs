//! Monitor framework: case scheduling, per-case isolation (catch_unwind + panic classification),
//! progress announcements for the supervising driver, coverage accounting, reports.

use crate::common::*;
use serde_json::{json, Value};
use std::cell::RefCell;
use std::collections::{BTreeMap, HashSet};
use std::io::Write;
use std::panic;
use std::sync::atomic::{AtomicU64, Ordering};
use std::sync::Arc;
use std::time::Instant;

#[derive(Clone, Copy, PartialEq, Eq, Debug)]
pub enum Tier {
    Quick,
    Thorough,
    Miri,
    Asan,
}

impl Tier {
    pub fn parse(text: &str) -> Tier {
        match text {
            "thorough" => Tier::Thorough,
            "miri" => Tier::Miri,
            "asan" => Tier::Asan,
            _ => Tier::Quick,
        }
    }
    pub fn name(&self) -> &'static str {
        match self {
            Tier::Quick => "quick",
            Tier::Thorough => "thorough",
            Tier::Miri => "miri",
            Tier::Asan => "asan",
        }
    }
}

pub struct Stream {
    pub name: &'static str,
    pub quick: u64,
    pub thorough: u64,
    pub miri: u64,
    pub asan: u64,
}

impl Stream {
    pub fn new(name: &'static str, quick: u64, thorough: u64) -> Stream {
        Stream { name, quick, thorough, miri: 0, asan: 0 }
    }
    pub fn miri(mut self, n: u64) -> Stream {
        self.miri = n;
        self
    }
    pub fn asan(mut self, n: u64) -> Stream {
        self.asan = n;
        self
    }
    pub fn count(&self, tier: Tier) -> u64 {
        match tier {
            Tier::Quick => self.quick,
            Tier::Thorough => self.thorough,
            Tier::Miri => self.miri,
            Tier::Asan => self.asan,
        }
    }
}

pub trait Prop: Sync {
    fn id(&self) -> &'static str;
    fn rule(&self) -> &'static str;
    fn streams(&self) -> Vec<Stream>;
    /// Minimum observation counts below which a run is inconclusive: (counter, quick, thorough).
    fn floors(&self) -> Vec<(&'static str, u64, u64)>;
    fn run(&self, cx: &mut Cx, stream: &str, idx: u64);
    fn assumptions(&self) -> Vec<&'static str> {
        vec![]
    }
    /// Floors whose counter names are computed (e.g. one per accented letter).
    fn dyn_floors(&self) -> Vec<(String, u64, u64)> {
        vec![]
    }
    /// Ratio bounds between two counters: (numerator, denominator, min, max); outside -> inconclusive.
    fn ratios(&self) -> Vec<(&'static str, &'static str, f64, f64)> {
        vec![]
    }
}

pub struct Violation {
    pub clause: String,
    pub sig: String,
    pub case: String,
    pub detail: Value,
}

pub struct Cx {
    pub tier: Tier,
    pub seed: u64,
    pub rng: Rng,
    pub stream: String,
    pub idx: u64,
    pub evals: u64,
    pub keys: HashSet<u64>,
    pub counters: BTreeMap<String, u64>,
    pub samples: Vec<Value>,
    pub sample_budget: usize,
    pub viols: Vec<Violation>,
    pub trace: Vec<String>,
    pub trace_on: bool,
    pub step: u64,
    pub verbose: bool,
}

// Global (not thread-local): a share of the cases runs on a freshly spawned thread.
static CONTEXT: std::sync::Mutex<String> = std::sync::Mutex::new(String::new());
static LAST_PANIC: std::sync::Mutex<Option<(String, String)>> = std::sync::Mutex::new(None);

fn lock<T>(m: &std::sync::Mutex<T>) -> std::sync::MutexGuard<'_, T> {
    m.lock().unwrap_or_else(|e| e.into_inner())
}

pub fn set_context(text: String) {
    *lock(&CONTEXT) = text;
}

impl Cx {
    /// One oracle evaluation.
    pub fn eval(&mut self) {
        self.evals += 1;
    }
    pub fn evals_n(&mut self, n: u64) {
        self.evals += n;
    }
    /// A distinct non-trivial case key.
    pub fn key(&mut self, h: u64) {
        self.keys.insert(h);
    }
    pub fn count(&mut self, name: &str) {
        *self.counters.entry(name.to_string()).or_insert(0) += 1;
    }
    pub fn count_n(&mut self, name: &str, n: u64) {
        *self.counters.entry(name.to_string()).or_insert(0) += n;
    }
    pub fn count_max(&mut self, name: &str, n: u64) {
        let e = self.counters.entry(name.to_string()).or_insert(0);
        if n > *e {
            *e = n;
        }
    }
    /// Context shown with a panic/abort witness.
    pub fn ctx(&self, text: String) {
        set_context(text);
    }
    pub fn sample(&mut self, f: impl FnOnce() -> Value) {
        if self.samples.len() < self.sample_budget {
            let mut v = f();
            if let Value::Object(m) = &mut v {
                m.insert("case".into(), json!(format!("{}:{}", self.stream, self.idx)));
            }
            self.samples.push(v);
        }
    }
    pub fn want_sample(&self) -> bool {
        self.samples.len() < self.sample_budget
    }
    pub fn fail(&mut self, clause: &str, detail: Value) {
        if self.viols.len() < 200 {
            self.viols.push(Violation { clause: clause.to_string(), sig: clause.to_string(), case: format!("{}:{}", self.stream, self.idx), detail });
        }
        self.count(&format!("VIOLATION {}", clause));
    }
    pub fn fail_sig(&mut self, clause: &str, sig: String, detail: Value) {
        if self.viols.len() < 200 {
            self.viols.push(Violation { clause: clause.to_string(), sig, case: format!("{}:{}", self.stream, self.idx), detail });
        }
        self.count(&format!("VIOLATION {}", clause));
    }
    /// C01 differential trace: one line per observed search result.
    pub fn trace_hits(&mut self, hits: &Hits) {
        if self.trace_on {
            self.trace.push(format!("{}:{} {} {:016x} {}", self.stream, self.idx, self.step, hash_hits(hits), hits.len()));
        }
        self.step += 1;
    }
    pub fn trace_note(&mut self, note: &str) {
        if self.trace_on {
            self.trace.push(format!("{}:{} {} {}", self.stream, self.idx, self.step, note));
        }
        self.step += 1;
    }
}

fn is_harness_location(file: &str) -> bool {
    file.starts_with("src/") || file.contains("/harness/") || file.contains("lsmon")
}

pub struct RunArgs {
    pub prop: String,
    pub tier: Tier,
    pub seed: u64,
    pub shard: u64,
    pub nshards: u64,
    pub out: Option<String>,
    pub only: Option<(String, u64)>,
    pub trace: bool,
    pub scale: f64,
    pub case_timeout_s: u64,
    pub max_wall_s: u64,
}

pub fn last_panic() -> Option<(String, String)> {
    lock(&LAST_PANIC).clone()
}

pub fn install_panic_hook() {
    panic::set_hook(Box::new(|info| {
        let loc = info.location().map(|l| format!("{}:{}", l.file(), l.line())).unwrap_or_default();
        let msg = info
            .payload()
            .downcast_ref::<String>()
            .cloned()
            .or_else(|| info.payload().downcast_ref::<&str>().map(|s| s.to_string()))
            .unwrap_or_else(|| "?".to_string());
        *lock(&LAST_PANIC) = Some((msg, loc));
    }));
}

pub fn run(prop: &dyn Prop, args: &RunArgs) -> i32 {
    install_panic_hook();
    let start = Instant::now();
    let mut cx = Cx {
        tier: args.tier,
        seed: args.seed,
        rng: Rng(0),
        stream: String::new(),
        idx: 0,
        evals: 0,
        keys: HashSet::new(),
        counters: BTreeMap::new(),
        samples: vec![],
        sample_budget: 6,
        viols: vec![],
        trace: vec![],
        trace_on: args.trace,
        step: 0,
        verbose: args.only.is_some(),
    };
    let mut progress = args.out.as_ref().map(|d| {
        std::fs::OpenOptions::new()
            .create(true)
            .append(true)
            .open(format!("{}/shard-{}.progress", d, args.shard))
            .expect("progress file")
    });
    // resume support: cases already announced in an earlier (aborted) run of this shard are skipped
    let skip: HashSet<(String, u64)> = match std::env::var("LSMON_SKIP") {
        Ok(text) => text
            .split(',')
            .filter_map(|p| {
                let mut it = p.rsplitn(2, ':');
                let idx = it.next()?.parse().ok()?;
                Some((it.next()?.to_string(), idx))
            })
            .collect(),
        Err(_) => HashSet::new(),
    };
    let resume_after: Option<(String, u64)> = std::env::var("LSMON_RESUME_AFTER").ok().and_then(|p| {
        let mut it = p.rsplitn(2, ':');
        let idx = it.next()?.parse().ok()?;
        Some((it.next()?.to_string(), idx))
    });
    let mut resuming = resume_after.is_some();

    // watchdog: a case that runs longer than case_timeout_s makes the process exit with 86
    let case_started = Arc::new(AtomicU64::new(0));
    let case_tag = Arc::new(std::sync::Mutex::new(String::new()));
    if args.case_timeout_s > 0 && args.tier != Tier::Miri {
        let cs = case_started.clone();
        let ct = case_tag.clone();
        let limit = args.case_timeout_s;
        let t0 = start;
        let outdir = args.out.clone();
        let shard = args.shard;
        std::thread::spawn(move || loop {
            std::thread::sleep(std::time::Duration::from_millis(500));
            let st = cs.load(Ordering::Relaxed);
            if st == 0 {
                continue;
            }
            let now = t0.elapsed().as_millis() as u64 + 1;
            if now > st && now - st > limit * 1000 {
                let tag = ct.lock().map(|t| t.clone()).unwrap_or_default();
                if let Some(d) = &outdir {
                    let _ = std::fs::write(format!("{}/shard-{}.hang", d, shard), &tag);
                }
                let context = CONTEXT.try_lock().map(|c| c.clone()).unwrap_or_default();
                eprintln!("WATCHDOG case {} exceeded {} s; last announced input: {}", tag, limit, context.chars().take(1500).collect::<String>());
                std::process::exit(86);
            }
        });
    }

    let mut thread_hooks: Vec<u64> = vec![];
    let mut fresh_cases: u64 = 0;
    let mut harness_errors: Vec<Value> = vec![];
    let mut truncated = false;
    let mut cases_run: u64 = 0;
    let streams = prop.streams();
    'outer: for st in &streams {
        let count = ((st.count(args.tier) as f64) * args.scale).ceil() as u64;
        for idx in 0..count {
            if let Some((os, oi)) = &args.only {
                if os != st.name || *oi != idx {
                    continue;
                }
            } else if idx % args.nshards != args.shard {
                continue;
            }
            if resuming {
                if let Some((rs, ri)) = &resume_after {
                    if rs == st.name && *ri == idx {
                        resuming = false;
                    }
                }
                continue;
            }
            if skip.contains(&(st.name.to_string(), idx)) {
                continue;
            }
            if args.max_wall_s > 0 && start.elapsed().as_secs() > args.max_wall_s {
                truncated = true;
                break 'outer;
            }
            if cx.viols.len() >= 100 {
                truncated = true;
                break 'outer;
            }
            if let Some(p) = progress.as_mut() {
                let _ = writeln!(p, "{}:{}", st.name, idx);
                let _ = p.flush();
            }
            if let Ok(mut t) = case_tag.lock() {
                *t = format!("{}:{}", st.name, idx);
            }
            case_started.store(start.elapsed().as_millis() as u64 + 1, Ordering::Relaxed);
            cx.stream = st.name.to_string();
            cx.idx = idx;
            cx.step = 0;
            cx.rng = Rng(mix(mix(args.seed, hstr(prop.id())), mix(hstr(st.name), idx)));
            set_context(String::new());
            *lock(&LAST_PANIC) = None;
            // One case in four runs on a freshly spawned thread: every thread-local scratch buffer of the
            // library (distance matrix, Jaccard sets, match vectors, registry) then starts from its initial
            // capacity again, so growth paths are crossed thousands of times per run, with different pasts,
            // instead of three times per process.
            let case_seed = cx.rng.0;
            CASE_SEED.store(case_seed, Ordering::Relaxed);
            ST_SEQ.store(0, Ordering::Relaxed);
            let fresh_thread = args.tier != Tier::Miri && st.name != "corpus" && mix(case_seed, 0x7431) % 4 == 0;
            let res = if fresh_thread {
                let cxr = &mut cx;
                let name = st.name;
                let joined = std::thread::scope(|sc| {
                    std::thread::Builder::new()
                        .stack_size(16 << 20)
                        .spawn_scoped(sc, move || {
                            let r = panic::catch_unwind(panic::AssertUnwindSafe(|| prop.run(cxr, name, idx)));
                            (r, hook_snapshot())
                        })
                        .expect("spawn case thread")
                        .join()
                });
                fresh_cases += 1;
                match joined {
                    Ok((r, snap)) => {
                        merge_hook_snapshot(&mut thread_hooks, &snap);
                        r
                    }
                    Err(e) => Err(e),
                }
            } else {
                let cxr = &mut cx;
                panic::catch_unwind(panic::AssertUnwindSafe(|| prop.run(cxr, st.name, idx)))
            };
            case_started.store(0, Ordering::Relaxed);
            cases_run += 1;
            if res.is_err() {
                let (msg, loc) = lock(&LAST_PANIC).take().unwrap_or(("?".into(), "?".into()));
                let context = lock(&CONTEXT).clone();
                if is_harness_location(&loc) {
                    harness_errors.push(json!({"case": format!("{}:{}", st.name, idx), "panic": msg, "at": loc, "context": context}));
                } else {
                    let short: String = msg.chars().take(160).collect();
                    cx.trace_note(&format!("PANIC {}", loc));
                    let short_loc = match loc.find("/rust/") {
                        Some(p) => loc[p + 1..].to_string(),
                        None => loc.rsplit("registry/src/").next().unwrap_or(&loc).to_string(),
                    };
                    cx.fail_sig(
                        "panic",
                        format!("panic@{}", short_loc),
                        json!({"panic": short, "at": loc, "context": context}),
                    );
                }
            }
        }
    }
    // hook counters (only present in hook builds)
    cx.counters.insert("cases run on a fresh thread".to_string(), fresh_cases);
    cx.counters.insert("searches whose query was written into the buffer kept from the search before".to_string(), QUERY_BUFFER_REUSES.load(Ordering::Relaxed));
    cx.counters.insert("searches preceded by the same text tokenised by another language".to_string(), FOREIGN_QUERIES.load(Ordering::Relaxed));
    cx.counters.insert("searches preceded by the same text tokenised by a language that normalises it differently".to_string(), FOREIGN_QUERIES_THAT_DIFFER.load(Ordering::Relaxed));
    #[cfg(lucid_suggest_verif)]
    {
        let mut snap = hook_snapshot();
        merge_hook_snapshot(&mut snap, &thread_hooks);
        let names = [
            "hook matrix accesses", "hook matrix max row", "hook matrix max col", "hook matrix max size",
            "hook matrix growths", "hook counter accesses", "hook counter max len", "hook cost accesses",
            "hook cost max len", "hook jaccard accesses", "hook jaccard max len",
        ];
        for (n, v) in names.iter().zip(snap.iter()) {
            cx.counters.insert(n.to_string(), *v);
        }
    }
    let mut floors: Vec<Value> = prop.floors().iter().map(|(n, q, t)| json!({"counter": n, "quick": q, "thorough": t})).collect();
    floors.extend(prop.dyn_floors().iter().map(|(n, q, t)| json!({"counter": n, "quick": q, "thorough": t})));
    let ratios: Vec<Value> = prop.ratios().iter().map(|(a, b, lo, hi)| json!({"num": a, "den": b, "min": lo, "max": hi})).collect();
    let viols: Vec<Value> = cx
        .viols
        .iter()
        .map(|v| json!({"clause": v.clause, "sig": v.sig, "case": v.case, "detail": v.detail}))
        .collect();
    let report = json!({
        "prop": prop.id(),
        "tier": args.tier.name(),
        "seed": args.seed,
        "shard": args.shard,
        "nshards": args.nshards,
        "cases": cases_run,
        "evaluations": cx.evals,
        "distinct_in_shard": cx.keys.len(),
        "counters": cx.counters,
        "samples": cx.samples,
        "violations": viols,
        "harness_errors": harness_errors,
        "truncated": truncated,
        "rule": prop.rule(),
        "floors": floors,
        "ratios": ratios,
        "assumptions": prop.assumptions(),
        "wall_s": start.elapsed().as_secs_f64(),
        "hooks": cfg!(lucid_suggest_verif),
        "debug_assertions": cfg!(debug_assertions),
    });
    match &args.out {
        Some(d) => {
            let suffix = if args.only.is_some() { "only".to_string() } else { format!("{}", args.shard) };
            let mut keys: Vec<u64> = cx.keys.iter().cloned().collect();
            keys.sort_unstable();
            let mut bytes = Vec::with_capacity(keys.len() * 8);
            for k in keys {
                bytes.extend_from_slice(&k.to_le_bytes());
            }
            // keys are appended: a shard restarted after an abort keeps what it had counted
            let mut f = std::fs::OpenOptions::new().create(true).append(true).open(format!("{}/shard-{}.keys", d, suffix)).expect("keys");
            f.write_all(&bytes).expect("keys write");
            if args.trace {
                let mut f = std::fs::OpenOptions::new().create(true).append(true).open(format!("{}/shard-{}.trace", d, suffix)).expect("trace");
                for line in &cx.trace {
                    let _ = writeln!(f, "{}", line);
                }
            }
            let n = std::fs::read_dir(d).map(|it| it.filter_map(|e| e.ok()).filter(|e| e.file_name().to_string_lossy().starts_with(&format!("shard-{}.report", suffix))).count()).unwrap_or(0);
            std::fs::write(format!("{}/shard-{}.report{}.json", d, suffix, n), to_json(&report)).expect("report");
        }
        None => {
            if args.only.is_none() {
                println!("LSMON-REPORT {}", to_json(&report));
            } else {
                println!("case {:?}: {} oracle evaluations, {} violation(s)", args.only, cx.evals, cx.viols.len());
            }
        }
    }
    if args.only.is_some() {
        for v in &cx.viols {
            println!("violation clause={} sig={} detail={}", v.clause, v.sig, v.detail);
        }
        if !harness_errors.is_empty() {
            println!("harness-error {}", Value::Array(harness_errors.clone()));
            return 3;
        }
        return if cx.viols.is_empty() { 0 } else { 1 };
    }
    0
}

/// `lsmon merge-keys f1 f2 ...` -> number of distinct u64 keys over all files.
pub fn merge_keys(files: &[String]) -> usize {
    let mut all: Vec<u64> = vec![];
    for f in files {
        if let Ok(bytes) = std::fs::read(f) {
            for ch in bytes.chunks_exact(8) {
                let mut b = [0u8; 8];
                b.copy_from_slice(ch);
                all.push(u64::from_le_bytes(b));
            }
        }
    }
    all.sort_unstable();
    all.dedup();
    all.len()
}

/// Minimal JSON writer (serde_json 1.0.48's own number formatting goes through an old `itoa`
/// that Miri rejects as undefined behaviour; nothing of serde_json's serialiser is used).
pub fn to_json(v: &Value) -> String {
    let mut out = String::new();
    write_json(v, &mut out);
    out
}

fn write_json(v: &Value, out: &mut String) {
    match v {
        Value::Null => out.push_str("null"),
        Value::Bool(b) => out.push_str(if *b { "true" } else { "false" }),
        Value::Number(n) => {
            if let Some(u) = n.as_u64() {
                out.push_str(&format!("{}", u));
            } else if let Some(i) = n.as_i64() {
                out.push_str(&format!("{}", i));
            } else {
                let f = n.as_f64().unwrap_or(0.0);
                if f.is_finite() {
                    out.push_str(&format!("{:?}", f));
                } else {
                    out.push_str("null");
                }
            }
        }
        Value::String(text) => write_json_str(text, out),
        Value::Array(a) => {
            out.push('[');
            for (i, x) in a.iter().enumerate() {
                if i > 0 {
                    out.push(',');
                }
                write_json(x, out);
            }
            out.push(']');
        }
        Value::Object(m) => {
            out.push('{');
            for (i, (k, x)) in m.iter().enumerate() {
                if i > 0 {
                    out.push(',');
                }
                write_json_str(k, out);
                out.push(':');
                write_json(x, out);
            }
            out.push('}');
        }
    }
}

fn write_json_str(text: &str, out: &mut String) {
    out.push('"');
    for c in text.chars() {
        match c {
            '"' => out.push_str("\\\""),
            '\\' => out.push_str("\\\\"),
            '\n' => out.push_str("\\n"),
            '\r' => out.push_str("\\r"),
            '\t' => out.push_str("\\t"),
            c if (c as u32) < 0x20 => out.push_str(&format!("\\u{:04x}", c as u32)),
            c => out.push(c),
        }
    }
    out.push('"');
}

/// Hook counters of the calling thread (empty in builds without the hooks).
pub fn hook_snapshot() -> Vec<u64> {
    #[cfg(lucid_suggest_verif)]
    {
        lucid_suggest_core::verif::snapshot().to_vec()
    }
    #[cfg(not(lucid_suggest_verif))]
    {
        vec![]
    }
}

/// Counters 1,2,3,6,8,10 are maxima, the others are sums (see rust/core/src/verif.rs).
pub fn merge_hook_snapshot(into: &mut Vec<u64>, other: &[u64]) {
    if into.len() < other.len() {
        into.resize(other.len(), 0);
    }
    for (i, v) in other.iter().enumerate() {
        if [1usize, 2, 3, 6, 8, 10].contains(&i) {
            if *v > into[i] {
                into[i] = *v;
            }
        } else {
            into[i] += *v;
        }
    }
}
