//! C02, C05, C09: what a returned hit may look like. One workload (stores of hostile, accented and
//! realistic titles; related, hostile and separator-only queries), three oracles.

use crate::bridge::bridge;
use crate::common::*;
use crate::fw::*;
use crate::gen;
use crate::oracle;
use crate::props::finds::corpus_recs;
use lucid_suggest_core::*;
use serde_json::json;
use std::collections::BTreeSet;

#[derive(Clone, Copy, PartialEq, Eq)]
pub enum Which {
    Titles,  // C02
    Related, // C05
    Markup,  // C09
}

pub struct Shape(pub Which);

fn shape_title(rng: &mut Rng, lang: &str, corpus: &[Rec]) -> String {
    match rng.below(10) {
        0 | 1 => gen::hostile(rng, 10),
        2 => {
            // expanding / decomposed letters at word edges, embedded NUL, edge separators
            let acc = oracle::accents(lang);
            let exp = oracle::expanding_table(lang);
            let alpha = gen::lower_alphabet(lang);
            let mut t = String::new();
            for k in 0..rng.range(1, 3) {
                if k > 0 {
                    t.push_str(*rng.pick(gen::SEPS));
                }
                for _ in 0..rng.range(1, 6) {
                    match rng.below(6) {
                        0 if !acc.is_empty() => {
                            let a = rng.pick(&acc);
                            t.push(a.base);
                            t.push(a.mark);
                        }
                        1 if !acc.is_empty() => t.push(rng.pick(&acc).composed),
                        2 if !exp.is_empty() => t.push(rng.pick(&exp).0),
                        3 => t.push_str(*rng.pick(&["ß", "œ", "ё", "é", "e\u{301}", "\0", "İ", "ǅ"])),
                        _ => t.push(*rng.pick(&alpha)),
                    }
                }
            }
            t
        }
        3 if rng.chance(1, 3) => gen::long_title(rng, lang),
        _ => gen::realistic_title(rng, lang, corpus),
    }
}

fn shape_query(rng: &mut Rng, lang: &str, lobj: &Lang, recs: &[Rec], which: Which) -> String {
    if recs.is_empty() {
        return gen::hostile(rng, 5);
    }
    let title = &rng.pick(recs).1;
    {
        // a title of more than 64 words: ask for one of its last words only (the matched word's number is beyond 64)
        let tok = gen::tok_record(lobj, title);
        if tok.words.len() > 64 && rng.chance(1, 2) {
            let wi = tok.words.len() - 1 - rng.below(3);
            return s(word_chars(&tok, wi));
        }
        // ... or type the whole title (every one of its words is matched; more than 255 of them now and then)
        if tok.words.len() > 64 && rng.chance(1, 2) {
            return title.clone();
        }
    }
    match rng.below(12) {
        0 => String::new(),
        1 => rng.pick(&[" ", "-", "...", "\t!", "\0", "\u{301}", "'", "$ #", " \u{a0} "]).to_string(),
        2 | 3 => gen::hostile(rng, 6),
        4 if which == Which::Related => {
            // one-word query made by deleting 2-3 cheap letters from a long title word
            let tok = gen::tok_record(lobj, title);
            if tok.words.is_empty() {
                return gen::hostile(rng, 4);
            }
            let wi = rng.below(tok.words.len());
            let mut w = word_chars(&tok, wi).to_vec();
            for _ in 0..rng.range(2, 3) {
                let cheap: Vec<usize> = (0..w.len())
                    .filter(|&i| "aeiouyаеиоуыэюя0123456789".contains(w[i]) || (i > 0 && w[i] == w[i - 1]))
                    .collect();
                if cheap.is_empty() || w.len() <= 2 {
                    break;
                }
                let at = *rng.pick(&cheap);
                w.remove(at);
            }
            s(&w)
        }
        _ => gen::related_query(rng, lang, lobj, title),
    }
}

impl Shape {
    fn store_case(&self, cx: &mut Cx, lang: &'static str) {
        let corpus = corpus_recs();
        let crowd = cx.rng.chance(1, 40);
        let n = if crowd { cx.rng.range(70, 150) } else { cx.rng.range(1, 6) };
        let mut recs: Vec<Rec> = vec![];
        let mut planted: Option<String> = None;
        // the word every record of a crowded store starts with; for C05 a short one whose scrambled spelling
        // shares no gram with it
        let common: &str = if self.0 == Which::Related { *cx.rng.pick(&["the", "form", "metal", "wifi", "her"]) } else { "metal" };
        let scrambled: String = {
            let mut c = cv(common);
            c.swap(0, 1);
            s(&c)
        };
        for i in 0..n {
            let t = if crowd {
                // many hits for one query, and now and then a title of several hundred words (a very long output)
                if i == 3 { (0..cx.rng.range(150, 400)).map(|_| gen::any_word(&mut cx.rng, lang)).collect::<Vec<_>>().join(" ") } else { format!("{} {} {}", common, gen::any_word(&mut cx.rng, lang), i) }
            } else {
                shape_title(&mut cx.rng, lang, &corpus)
            };
            // now and then the next record is the once-composed spelling of this one (the language object sees a text
            // that equals what it has just produced)
            let once: String = oracle::compose(lang, &cv(&t)).into_iter().collect();
            let follow = !crowd && once != t && cx.rng.chance(1, 4);
            recs.push((100 + i * 5, t, cx.rng.below(50)));
            if follow {
                recs.push((100 + i * 5 + 1, once, cx.rng.below(50)));
                cx.count("records followed by their own once-composed spelling");
            } else if !crowd && cx.rng.chance(1, 6) {
                let reduced = oracle::reduce_once(lang, &recs[recs.len() - 1].1);
                if reduced != recs[recs.len() - 1].1 {
                    recs.push((100 + i * 5 + 2, reduced, cx.rng.below(50)));
                    cx.count("records followed by their own once-reduced spelling");
                }
            }
        }
        if crowd {
            cx.count("stores of 70-150 records with one very long title");
        }
        if self.0 == Which::Related && !crowd && cx.rng.chance(1, 40) {
            // a letter outside the BMP behind two letters that differ only in the bits such a letter's upper half would
            // overlap if a gram were packed into 16 bits per letter - next to a word whose scrambled spelling matches
            // it fuzzily without sharing a gram: nothing in the query shares a gram with the title
            let (p1, p2, z) = *cx.rng.pick(&[('a', 'c', '\u{20bb7}'), ('b', 'c', '\u{10428}'), ('d', 'e', '\u{10428}'), ('d', 'f', '\u{20bb7}')]);
            let w = *cx.rng.pick(&["abc", "the", "ant", "form"]);
            recs.push((9_999, format!("{} {}{}", w, p1, z), 7));
            let mut c = cv(w);
            c.swap(0, 1);
            planted = Some(format!("{} {}{}", s(&c), p2, z));
            cx.count("stores with a 16-bit look-alike gram pair");
        }
        if self.0 == Which::Related && !crowd && cx.rng.chance(1, 8) {
            self.registry_session(cx, lang, &recs);
        }
        let limit = if crowd { if self.0 == Which::Related { *cx.rng.pick(&[1, 2, 3, 10, 200]) } else { 200 } } else { *cx.rng.pick(&[10, 10, 10, 1, 2, 3, 65536]) };
        // C05/C09 read the spans from sentinel markers; one store in three is configured with sentinel
        // runs of different lengths (1-3 characters each), collapsed again before the hit is parsed, so
        // that position arithmetic depending on the marker lengths is exercised as well
        let (mut wa, mut wb) = if self.0 != Which::Titles && cx.rng.chance(1, 3) { (cx.rng.range(1, 3), cx.rng.range(1, 3)) } else { (1, 1) };
        let (mut wide_l, mut wide_r): (String, String) = ((0..wa).map(|_| S1).collect(), (0..wb).map(|_| S2).collect());
        let mut st = St::build(lang, &recs, limit, (&wide_l, &wide_r));
        // the first judged query is chosen now: an earlier life of the store may end with exactly this query
        let first_q = shape_query(&mut cx.rng, lang, &st.store.lang, &recs, self.0);
        if cx.rng.chance(1, 6) && !crowd {
            // the store had another life before: other records (as many as now, or some other number), the query that
            // will be judged first, then emptied and filled with the judged records
            st.store.clear();
            let k_other = if cx.rng.chance(1, 2) { recs.len() } else { cx.rng.range(1, 8) };
            for k in 0..k_other {
                st.add(&(9000 + k, shape_title(&mut cx.rng, lang, &corpus), 1));
            }
            let _ = st.search(&first_q);
            st.store.clear();
            for r in &recs {
                st.add(r);
            }
            cx.count("stores cleared and refilled before a search");
        }
        if wa != wb {
            cx.count("stores with opening and closing markers of different lengths");
        }
        let (mut ml, mut mr) = *cx.rng.pick(gen::MARKERS);
        let mut st_m = if self.0 == Which::Titles { Some(St::build(lang, &recs, limit, (ml, mr))) } else { None };
        if let (Some(m), true) = (st_m.as_mut(), cx.rng.chance(1, 4)) {
            // the markers written straight into the public field instead of through the setter
            m.store.dividers = (cv(ml), cv(mr));
            cx.count("marker stores configured through the public field");
        }
        let mut prev_q: Option<String> = None;
        let toks: Vec<TextOwn> = recs.iter().map(|r| reference_tok(lang, &r.1)).collect();
        let rgrams: Vec<BTreeSet<oracle::Gram>> = toks.iter().map(oracle::grams_of).collect();
        for qk in 0..8 {
            let q = if qk == 0 && !crowd {
                first_q.clone()
            } else if let (Some(pq), 1) = (&planted, qk) {
                pq.clone()
            } else if crowd && self.0 == Which::Related && qk < 4 {
                // a session on a crowded store: the common word (touches more records than any candidate cap),
                // then its scrambled spelling (shares no gram with it)
                if qk % 2 == 0 { common.to_string() } else { scrambled.clone() }
            } else if crowd && cx.rng.chance(1, 2) {
                if cx.rng.chance(1, 2) { common.to_string() } else { recs[3.min(recs.len() - 1)].1.clone() }
            } else {
                shape_query(&mut cx.rng, lang, &st.store.lang, &recs, self.0)
            };
            // half-way, the marker store gets another marker pair and the previous query again (output kept from
            // the search before the change would show)
            let q = if qk == 4 && self.0 != Which::Titles && cx.rng.chance(1, 2) {
                // re-mark the live store (other sentinel run lengths) and send the previous query again
                wa = cx.rng.range(1, 3);
                wb = cx.rng.range(1, 3);
                wide_l = (0..wa).map(|_| S1).collect();
                wide_r = (0..wb).map(|_| S2).collect();
                st.store.highlight_with((&wide_l, &wide_r));
                cx.count("marker pair changed between two searches of the same query");
                prev_q.clone().unwrap_or(q)
            } else if qk == 4 && self.0 == Which::Titles {
                let (a, b) = *cx.rng.pick(gen::MARKERS);
                ml = a;
                mr = b;
                if let Some(m) = st_m.as_mut() {
                    m.store.highlight_with((ml, mr));
                }
                cx.count("marker pair changed between two searches of the same query");
                prev_q.clone().unwrap_or(q)
            } else {
                q
            };
            prev_q = Some(q.clone());
            if qk == 6 && !crowd && cx.rng.chance(1, 2) {
                // the stores are emptied and filled again with the same records: markers, limit and language stay
                st.store.clear();
                for r in &recs {
                    st.add(r);
                }
                if let Some(m) = st_m.as_mut() {
                    m.store.clear();
                    for r in &recs {
                        m.add(r);
                    }
                }
                cx.count("stores cleared and refilled before a search");
            }
            cx.ctx(format!("lang={} records={} limit={} q={:?} markers=({:?},{:?})", lang, recs.len(), limit, q, ml, mr));
            let hits = st.search(&q);
            let hits: Hits = if wa == 1 && wb == 1 { hits } else { hits.into_iter().map(|(id, t)| (id, t.replace(&wide_l, &S1.to_string()).replace(&wide_r, &S2.to_string()))).collect() };
            let tq = st.tok_query(&q);
            let describe = |hit: &(usize, String)| json!({"lang": lang, "records": recs, "limit": limit, "query": q, "hit": {"id": hit.0, "title": hit.1}});
            match self.0 {
                Which::Titles => {
                    let hits_m = st_m.as_ref().unwrap().search(&q);
                    cx.eval();
                    let subst: Hits = hits.iter().map(|(id, t)| (*id, oracle::substitute_markers(t, ml, mr))).collect();
                    if subst != hits_m {
                        cx.fail("markers-change-more-than-markers", json!({"lang": lang, "records": recs, "limit": limit, "query": q, "markers": [ml, mr], "with_sentinels": hits, "with_markers": hits_m}));
                    }
                    for hit in &hits {
                        cx.eval();
                        let rec = recs.iter().find(|r| r.0 == hit.0);
                        let rec = match rec {
                            None => {
                                cx.fail("unknown-id", describe(hit));
                                continue;
                            }
                            Some(r) => r,
                        };
                        if hit.1.contains('\0') {
                            cx.fail("nul-in-title", describe(hit));
                        }
                        let stripped = oracle::strip_sentinels(&hit.1);
                        let expect = oracle::expected_title(lang, &rec.1);
                        if stripped != expect {
                            cx.fail("title-altered", json!({"lang": lang, "stored": rec.1, "query": q, "returned": hit.1, "expected_without_markers": expect}));
                        }
                        let has_span = hit.1.contains(S1);
                        let composed = expect != rec.1.replace('\0', "");
                        let rtok = &toks[recs.iter().position(|r| r.0 == hit.0).unwrap()];
                        let expanding = rtok.source.iter().zip(rtok.chars.iter()).any(|(a, b)| *a == '\0' && *b != '\0');
                        let nul = rec.1.contains('\0');
                        let marker_in_title = (!ml.is_empty() && rec.1.contains(ml)) || (!mr.is_empty() && rec.1.contains(mr));
                        if has_span {
                            cx.count("hit with span");
                        }
                        if composed {
                            cx.count("hit whose title needed composition");
                        }
                        if expanding {
                            cx.count("hit with expanding letter");
                        }
                        if nul {
                            cx.count("hit whose title has NUL");
                        }
                        if marker_in_title {
                            cx.count("hit whose title contains marker text");
                        }
                        if has_span && (composed || expanding || nul || marker_in_title) {
                            cx.key(hparts(&[lang, &rec.1, &q, ml, mr]));
                            if cx.want_sample() {
                                cx.sample(|| json!({"lang": lang, "stored": rec.1, "query": q, "markers": [ml, mr], "returned_with_sentinels": hit.1}));
                            }
                        }
                    }
                    if tq.words.is_empty() {
                        cx.count("empty-query searches");
                    }
                }
                Which::Related => {
                    if tq.words.is_empty() {
                        continue;
                    }
                    let qgrams = oracle::grams_of(&tq);
                    let stretch = tq.words[tq.words.len() - 1].slice.1 - tq.words[0].slice.0;
                    for hit in &hits {
                        cx.eval();
                        let ri = match recs.iter().position(|r| r.0 == hit.0) {
                            Some(i) => i,
                            None => {
                                cx.fail("unknown-id", describe(hit));
                                continue;
                            }
                        };
                        if rgrams[ri].intersection(&qgrams).next().is_none() {
                            cx.fail("unrelated-hit", describe(hit));
                        }
                        let qset: BTreeSet<char> = tq.chars.iter().cloned().filter(|c| c.is_alphanumeric()).collect();
                        if !toks[ri].chars.iter().any(|c| qset.contains(c)) {
                            cx.fail("no-common-letter", describe(hit));
                        }
                        match oracle::spans_of(&hit.1, &toks[ri]) {
                            Err(_) => cx.count("unparsable hit (C09's business)"),
                            Ok(spans) => {
                                let mut fuzzy = false;
                                for (a, b) in &spans {
                                    if b - a > stretch + 1 {
                                        cx.fail("span-longer-than-typed", json!({"lang": lang, "stored": recs[ri].1, "query": q, "returned": hit.1, "span": [a, b], "query_stretch": stretch}));
                                    }
                                    if b - a == stretch + 1 {
                                        cx.count("span one longer than the query stretch");
                                    }
                                    let text = &toks[ri].chars[*a..*b];
                                    if !tq.words.iter().enumerate().any(|(i, _)| word_chars(&tq, i).starts_with(text) || text.starts_with(word_chars(&tq, i))) {
                                        fuzzy = true;
                                    }
                                }
                                if fuzzy {
                                    cx.count("hit with fuzzy span");
                                }
                                if spans.len() > tq.words.len() {
                                    cx.count("hit with joined-record spans");
                                }
                                if spans.len() < tq.words.len() && !spans.is_empty() {
                                    cx.count("hit with fewer spans than query words");
                                }
                                if fuzzy || spans.len() != tq.words.len() {
                                    cx.key(hparts(&[lang, &recs[ri].1, &q]));
                                    if cx.want_sample() {
                                        cx.sample(|| json!({"lang": lang, "stored": recs[ri].1, "query": q, "returned": hit.1, "query_stretch": stretch}));
                                    }
                                }
                            }
                        }
                    }
                }
                Which::Markup => {
                    let expect_spans = oracle::has_alnum(&q);
                    if expect_spans != !tq.words.is_empty() {
                        cx.count("raw alnum test disagrees with tokeniser (query skipped)");
                        continue;
                    }
                    for hit in &hits {
                        cx.eval();
                        let ri = match recs.iter().position(|r| r.0 == hit.0) {
                            Some(i) => i,
                            None => {
                                cx.fail("unknown-id", describe(hit));
                                continue;
                            }
                        };
                        let tok = &toks[ri];
                        match oracle::spans_of(&hit.1, tok) {
                            Err(e) => cx.fail("markup-unbalanced", json!({"lang": lang, "stored": recs[ri].1, "query": q, "returned": hit.1, "error": e})),
                            Ok(spans) => {
                                if expect_spans && spans.is_empty() {
                                    cx.fail("hit-without-highlight", describe(hit));
                                }
                                if !expect_spans && !spans.is_empty() {
                                    cx.fail("highlight-for-empty-query", describe(hit));
                                }
                                let mut used = BTreeSet::new();
                                for (a, b) in &spans {
                                    match tok.words.iter().find(|w| w.slice.0 == *a) {
                                        None => cx.fail("span-not-at-word-start", json!({"lang": lang, "stored": recs[ri].1, "query": q, "returned": hit.1, "span": [a, b]})),
                                        Some(w) => {
                                            if *b > w.slice.1 {
                                                cx.fail("span-crosses-word-end", json!({"lang": lang, "stored": recs[ri].1, "query": q, "returned": hit.1, "span": [a, b], "word": [w.slice.0, w.slice.1]}));
                                            }
                                            if !used.insert(w.offset) {
                                                cx.fail("word-highlighted-twice", describe(hit));
                                            }
                                        }
                                    }
                                }
                                if spans.len() >= 2 {
                                    cx.count("hit with 2+ spans");
                                }
                                if spans.len() > 255 {
                                    cx.count("hits with more than 255 highlighted words");
                                }
                                if spans.len() > tq.words.len() {
                                    cx.count("joined-record split (more spans than query words)");
                                }
                                if !spans.is_empty() && spans.len() < tq.words.len() {
                                    cx.count("fewer spans than query words");
                                }
                                if spans.is_empty() {
                                    cx.count("hit of separator-only query");
                                }
                                if tok.source.contains(&'\0') && !spans.is_empty() {
                                    cx.count("span in title with padding");
                                }
                                if spans.len() >= 2 || tok.source.contains(&'\0') {
                                    cx.key(hparts(&[lang, &recs[ri].1, &q]));
                                    if cx.want_sample() && spans.len() >= 2 {
                                        cx.sample(|| json!({"lang": lang, "stored": recs[ri].1, "query": q, "returned": hit.1, "spans": spans}));
                                    }
                                } else {
                                    cx.key(hparts(&[lang, &recs[ri].1, &q, "plain"]));
                                }
                            }
                        }
                    }
                }
            }
        }
    }

    /// C05 clause 1 through the top-level registry API (what the JS wrapper calls): the hits read from the result buffer
    /// after `run_search` must share a gram with THAT query - also right after the store was emptied in place, refilled,
    /// re-marked or had its limit changed.
    fn registry_session(&self, cx: &mut Cx, lang: &'static str, recs: &[Rec]) {
        let id = (cx.idx as usize + 3_000_000) * 2;
        create_store(id, take_lang(lang));
        for r in recs {
            add_record(id, r.0, &r.1, r.2);
        }
        let probe = St::build_sentinel(lang, recs, 10);
        let mut live: Vec<Rec> = recs.to_vec();
        for step in 0..6 {
            match cx.rng.below(5) {
                0 => {
                    using_store(id, |s| s.clear());
                    live.clear();
                }
                1 => {
                    if let Some(r) = recs.get(step % recs.len().max(1)) {
                        add_record(id, r.0, &r.1, r.2);
                        live.push(r.clone());
                    }
                }
                2 => set_limit(id, *cx.rng.pick(&[0usize, 1, 3, 10])),
                _ => {}
            }
            let q = if cx.rng.chance(1, 2) || recs.is_empty() { gen::any_word(&mut cx.rng, lang) } else { shape_query(&mut cx.rng, lang, &probe.store.lang, recs, Which::Related) };
            let tq = probe.tok_query(&q);
            if tq.words.is_empty() {
                continue;
            }
            let qgrams = oracle::grams_of(&tq);
            cx.ctx(format!("C05 registry lang={} records={:?} step {} q={:?}", lang, recs, step, q));
            run_search(id, &q);
            let hits: Hits = using_results(id, |b| b.iter().map(|r| (r.id, r.title.clone())).collect());
            cx.count("registry searches");
            for h in &hits {
                cx.eval();
                let shares = live.iter().any(|r| r.0 == h.0 && !oracle::grams_of(&probe.tok_record(&r.1)).is_disjoint(&qgrams));
                if !shares {
                    cx.fail("unrelated-hit", json!({"lang": lang, "through": "top-level registry API (run_search, then the result buffer)", "records_now_in_the_store": live, "query": q, "hit": h}));
                    destroy_store(id);
                    return;
                }
            }
        }
        destroy_store(id);
    }

    /// C05 clause 1 on large stores: every hit of the whole-corpus store must share a gram with the query.
    fn corpus_case(&self, cx: &mut Cx, lang: &'static str) {
        crate::props::finds::with_corpus_store(lang, |st, recs| {
            for _ in 0..12 {
                let t = cx.rng.pick(recs).1.clone();
                let q = match cx.rng.below(5) {
                    0 => gen::hostile(&mut cx.rng, 5),
                    1 => (0..cx.rng.range(9, 30)).map(|_| gen::any_word(&mut cx.rng, lang)).collect::<Vec<_>>().join(" "),
                    _ => gen::related_query(&mut cx.rng, lang, &st.store.lang, &t),
                };
                let tq = st.tok_query(&q);
                if tq.words.is_empty() {
                    continue;
                }
                let qgrams = oracle::grams_of(&tq);
                cx.ctx(format!("C05 corpus lang={} q={:?}", lang, q));
                let hits = st.search(&q);
                cx.count("corpus-store searches");
                if tq.words.len() > 8 {
                    cx.count("corpus-store searches with more than 8 query words");
                }
                for hit in &hits {
                    cx.eval();
                    let rec = recs.iter().find(|r| r.0 == hit.0);
                    let shares = rec.map(|r| !oracle::grams_of(&st.tok_record(&r.1)).is_disjoint(&qgrams)).unwrap_or(false);
                    if !shares {
                        cx.fail("unrelated-hit", json!({"lang": lang, "store": "whole e-commerce corpus, limit = N", "query": q, "hit": hit}));
                    }
                }
                if hits.len() > 1 {
                    cx.key(hparts(&[lang, &q, "corpus"]));
                }
            }
        });
    }

    /// C05 clause 1 on catalogues of 8300-17000 records dominated by one word (posting lists beyond
    /// 8192 entries): queries that contain the dominant word plus a scrambled spelling of some other
    /// record's word must not bring back records that share no gram with them.
    fn big_case(&self, cx: &mut Cx, lang: &'static str) {
        let alpha = gen::lower_alphabet(lang);
        let n = *cx.rng.pick(&[8300usize, 9000, 17000]);
        let dom = gen::rand_word(&mut cx.rng, &alpha, 4, 6);
        let mut recs: Vec<Rec> = (0..n).map(|i| (10 + i, format!("{} {}", dom, i), i % 97)).collect();
        let mut specials: Vec<String> = vec![];
        for k in 0..6 {
            let w = gen::rand_word(&mut cx.rng, &alpha, 3, 6);
            recs.push((n + 100 + k, format!("{} {}", w, gen::rand_word(&mut cx.rng, &alpha, 3, 5)), 500 + k));
            specials.push(w);
        }
        let limit = if cx.rng.chance(1, 2) { recs.len() } else { 10 };
        let st = St::build_sentinel(lang, &recs, limit);
        let toks: std::collections::BTreeMap<usize, TextOwn> = recs.iter().rev().take(6).map(|r| (r.0, st.tok_record(&r.1))).collect();
        let dom_tok = st.tok_record(&format!("{} 1", dom));
        for w in &specials {
            let mut cs = cv(w);
            cs.swap(0, 1);
            let scrambled = s(&cs);
            for q in [format!("{} {}", dom, scrambled), format!("{} {}", scrambled, dom), scrambled.clone()].iter() {
                let tq = st.tok_query(q);
                if tq.words.is_empty() {
                    continue;
                }
                let qgrams = oracle::grams_of(&tq);
                cx.ctx(format!("C05 big lang={} n={} dominant={:?} q={:?}", lang, n, dom, q));
                let hits = st.search(q);
                cx.count("big-catalogue searches");
                let dom_grams = oracle::grams_of(&dom_tok);
                let dom_shared = !dom_grams.is_disjoint(&qgrams);
                for hit in hits.iter() {
                    cx.eval();
                    if dom_shared && !toks.contains_key(&hit.0) {
                        continue; // a 'dominant <n>' record and the query contains the dominant word's grams
                    }
                    let shares = match toks.get(&hit.0) {
                        Some(t) => !oracle::grams_of(t).is_disjoint(&qgrams),
                        None => {
                            // a 'dominant <number>' record: its grams are the dominant word's plus the number's
                            let mut g = oracle::grams_of(&dom_tok);
                            g.extend(oracle::grams_of(&st.tok_record(&recs.iter().find(|r| r.0 == hit.0).map(|r| r.1.clone()).unwrap_or_default())));
                            !g.is_disjoint(&qgrams)
                        }
                    };
                    if !shares {
                        cx.fail("unrelated-hit", json!({"lang": lang, "store": format!("{} records '{} <n>' plus 6 two-word records", n, dom), "limit": limit, "query": q, "hit": hit}));
                    }
                }
                if !hits.is_empty() {
                    cx.key(hparts(&[lang, &dom, q, "big"]));
                }
            }
        }
    }

    /// C05 clause 1 over a long session: one small store of short words answering more than 2^16 searches (their
    /// vowel-swapped and letter-swapped spellings, which match fuzzily but often share no gram); a few queries
    /// are used at the start and come back after 65 536 searches. Every hit of every search must share a gram.
    fn session_case(&self, cx: &mut Cx, lang: &'static str) {
        let alpha = gen::lower_alphabet(lang);
        // records 0 and 1 are touched by the first searches only; their fuzzy partners (another first vowel, the first
        // two letters swapped: matching spellings that share no gram with them) come exactly 65 536 searches later
        let leads: [(&str, &str); 2] = *cx.rng.pick(&[[("ant", "ent"), ("the", "hte")], [("end", "and"), ("form", "ofrm")], [("owl", "awl"), ("her", "ehr")]]);
        let mut words: Vec<String> = vec![leads[0].0.to_string(), leads[1].0.to_string()];
        for w in ["zebra", "cat", "dig", "wifi", "metal", "yellow"].iter() {
            words.push(w.to_string());
        }
        for _ in 0..3 {
            words.push(gen::rand_word(&mut cx.rng, &alpha, 3, 4));
        }
        let n = cx.rng.range(3, words.len());
        let recs: Vec<Rec> = (0..n).map(|i| (i, if i >= 2 && cx.rng.chance(1, 3) { format!("{} {}", words[i], words[cx.rng.range(2, words.len() - 1)]) } else { words[i].clone() }, i)).collect();
        let st = St::build_sentinel(lang, &recs, *cx.rng.pick(&[1usize, 3, 10]));
        let rgrams: Vec<BTreeSet<oracle::Gram>> = recs.iter().map(|r| oracle::grams_of(&st.tok_record(&r.1))).collect();
        let vowels = if lang == "ru" { cv("аеиоу") } else { cv("aeiou") };
        let mut queries: Vec<String> = vec![leads[0].0.to_string(), leads[1].0.to_string(), leads[0].1.to_string(), leads[1].1.to_string()];
        for w in &words[2..] {
            let c = cv(w);
            queries.push(w.clone());
            let mut t = c.clone();
            t.swap(0, 1);
            queries.push(s(&t));
            let mut v = c.clone();
            if let Some(p) = v.iter().position(|x| vowels.contains(x)) {
                v[p] = *cx.rng.pick(&vowels);
            }
            queries.push(s(&v));
        }
        let shares: Vec<Vec<bool>> = queries
            .iter()
            .map(|q| {
                let tq = st.tok_query(q);
                let qg = oracle::grams_of(&tq);
                rgrams.iter().map(|g| !g.is_disjoint(&qg)).collect()
            })
            .collect();
        // the searches in between must leave records 0 and 1 alone
        let between: Vec<usize> = (4..queries.len()).filter(|&qi| !shares[qi][0] && !shares[qi][1]).collect();
        if between.is_empty() {
            cx.count("session cases without usable in-between queries");
            return;
        }
        let first = cx.rng.range(0, 3);
        let total = 65_536 + first + 8;
        let mut judged = 0u64;
        for k in 0..total {
            // searches `first` and `first + 1` touch records 0 and 1; searches `first + 65536` and `first + 65537` are their partners
            let (qi, special) = if k == first {
                (0, true)
            } else if k == first + 1 {
                (1, true)
            } else if k == first + 65_536 {
                (2, true)
            } else if k == first + 65_537 {
                (3, true)
            } else {
                (between[(k * 5 + k / 31) % between.len()], false)
            };
            if k % 8192 == 0 || special {
                cx.ctx(format!("C05 session lang={} records={:?} search #{} q={:?}", lang, recs, k + 1, queries[qi]));
            }
            for h in st.search(&queries[qi]) {
                judged += 1;
                if !shares[qi][h.0] {
                    cx.fail("unrelated-hit", json!({"lang": lang, "records": recs, "limit": st.store.limit,
                        "history": format!("search #{} on this store: {:?} and {:?} were searched as #{} and #{}, then only queries sharing no gram with the first two records, then {:?} and {:?} exactly 65 536 searches after them", k + 1, queries[0], queries[1], first + 1, first + 2, queries[2], queries[3]),
                        "query": queries[qi], "hit": h}));
                    return;
                }
            }
        }
        cx.evals_n(total as u64);
        cx.count_n("session searches on one store", total as u64);
        cx.count_n("session hits judged", judged);
        cx.key(hparts(&[lang, &format!("{:?}", recs), "session"]));
    }

    /// Joined-record matches with typos, cut short: one query word (no separator typed) covering two
    /// title words, the second of which starts with an accented / expanding letter of the language.
    fn joined_case(&self, cx: &mut Cx, lang: &'static str) {
        let alpha = gen::lower_alphabet(lang);
        let acc = oracle::accents(lang);
        let exp = oracle::expanding_table(lang);
        let mut starts: Vec<String> = vec![];
        for a in &acc {
            starts.push(a.composed.to_string());
            starts.push(format!("{}{}", a.base, a.mark));
        }
        for e in &exp {
            starts.push(e.0.to_string());
        }
        let w1 = gen::rand_word(&mut cx.rng, &alpha, 3, 12);
        let head = if !starts.is_empty() && cx.rng.chance(3, 4) { cx.rng.pick(&starts).clone() } else { gen::rand_word(&mut cx.rng, &alpha, 1, 1) };
        let w2 = format!("{}{}", head, gen::rand_word(&mut cx.rng, &alpha, 1, 11));
        let sep = *cx.rng.pick(&[" ", " ", "-", ", ", " - ", ".", "\t"]);
        let w0 = if cx.rng.chance(1, 3) { format!("{} ", gen::any_word(&mut cx.rng, lang)) } else { String::new() };
        let title = format!("{}{}{}{}", w0, w1, sep, w2);
        // one case in eight (languages with function words): a function word, and further right a proper prefix of it followed
        // directly by a symbol that belongs to no word (fro' after "from"); typed: that prefix, the symbol and an ending - a query
        // word that matches the function word, and the prefix together with what follows it
        let fws: Vec<&'static str> = crate::props::ranking::function_words(lang).into_iter().filter(|f| f.chars().count() >= 3).collect();
        let mut special: Option<Vec<String>> = None;
        let title = if (cx.idx / 12) % 8 == 5 && !fws.is_empty() {
            let f: Vec<char> = cx.rng.pick(&fws).chars().collect();
            let k = cx.rng.range(2, f.len() - 1);
            let w = s(&f[..k]);
            let c = *cx.rng.pick(&["'", "$", "\u{2019}", "#", "''", "'$"]);
            let y = gen::rand_word(&mut cx.rng, &alpha, 2, 4);
            let z = gen::rand_word(&mut cx.rng, &alpha, 3, 6);
            let mut ends: Vec<String> = gen::suffixes(lang).iter().map(|x| x.to_string()).collect();
            ends.push("s".to_string());
            let e1 = cx.rng.pick(&ends).clone();
            special = Some(vec![format!("{}{}s", w, c), format!("{}{}{}", w, c, e1), format!("{}{}", w, c), format!("{}{}{}", w, c, y.chars().next().unwrap_or('a')), format!("{}{} {}", w, c, y), format!("{}{}", s(&f), c)]);
            cx.count("titles with a function word and, further right, a prefix of it followed by a symbol");
            format!("{}{} {}{} {} {}", w0, s(&f), w, c, y, z)
        } else {
            title
        };
        let st = St::build_sentinel(lang, &[(1, title.clone(), 3)], 10);
        let tok = st.tok_record(&title);
        if tok.words.len() < 2 {
            return;
        }
        let n = tok.words.len();
        let mut joined: Vec<char> = word_chars(&tok, n - 2).to_vec();
        let l1 = joined.len();
        joined.extend_from_slice(word_chars(&tok, n - 1));
        let mut plan: Vec<(String, usize)> = vec![];
        if let Some(sp) = &special {
            plan = sp.iter().map(|q| (q.clone(), 0usize)).collect();
        } else {
            for k in (l1 + 1)..=joined.len() {
                for typos in 0..4 {
                    let mut q: Vec<char> = joined[..k].to_vec();
                    for _ in 0..typos {
                        q = gen::rand_edit(&mut cx.rng, &q, &alpha);
                    }
                    plan.push((s(&q), typos));
                }
            }
        }
        {
            for (qs, typos) in plan {
                cx.ctx(format!("joined lang={} title={:?} q={:?}", lang, title, qs));
                let hits = st.search(&qs);
                let tq = st.tok_query(&qs);
                cx.eval();
                cx.count("joined-with-typos queries");
                for hit in &hits {
                    match oracle::spans_of(&hit.1, &tok) {
                        Err(e) => {
                            if self.0 == Which::Markup {
                                cx.fail("markup-unbalanced", json!({"lang": lang, "stored": title, "query": qs, "returned": hit.1, "error": e}));
                            }
                        }
                        Ok(spans) => {
                            if spans.len() >= 2 {
                                cx.count("joined-with-typos hits with 2+ spans");
                                cx.key(hparts(&[lang, &title, &qs, "joined"]));
                                if typos > 0 {
                                    cx.count("joined-with-typos hits with 2+ spans and typos");
                                }
                            }
                            let stretch = if tq.words.is_empty() { 0 } else { tq.words[tq.words.len() - 1].slice.1 - tq.words[0].slice.0 };
                            for (a, b) in &spans {
                                match self.0 {
                                    Which::Markup => {
                                        match tok.words.iter().find(|w| w.slice.0 == *a) {
                                            None => cx.fail("span-not-at-word-start", json!({"lang": lang, "stored": title, "query": qs, "returned": hit.1, "span": [a, b]})),
                                            Some(w) => {
                                                if *b > w.slice.1 {
                                                    cx.fail("span-crosses-word-end", json!({"lang": lang, "stored": title, "query": qs, "returned": hit.1, "span": [a, b]}));
                                                }
                                            }
                                        }
                                    }
                                    Which::Related => {
                                        if b - a > stretch + 1 {
                                            cx.fail("span-longer-than-typed", json!({"lang": lang, "stored": title, "query": qs, "returned": hit.1, "span": [a, b], "query_stretch": stretch}));
                                        }
                                    }
                                    _ => {}
                                }
                            }
                            if self.0 == Which::Markup && spans.is_empty() && oracle::has_alnum(&qs) {
                                cx.fail("hit-without-highlight", json!({"lang": lang, "stored": title, "query": qs, "returned": hit.1}));
                            }
                        }
                    }
                }
            }
        }
    }

    /// C05 (c): query = exact stable prefix of a one-word title -> highlight covers exactly the typed characters.
    fn exact_prefix_case(&self, cx: &mut Cx, lang: &'static str) {
        let words = gen::vocab(lang);
        for (k, w) in words.iter().enumerate() {
            let w = if cx.rng.chance(1, 4) { gen::any_word(&mut cx.rng, lang) } else { w.to_string() };
            let pre = ["", "", " ", "'", "- "][k % 5];
            let post = ["", "", "!", " ", "'"][(k / 5) % 5];
            let title = format!("{}{}{}", pre, w, post);
            let st = St::build_sentinel(lang, &[(1, title.clone(), 5)], 10);
            let tok = st.tok_record(&title);
            if tok.words.len() != 1 {
                continue;
            }
            let word = &tok.words[0];
            let cs = word_chars(&tok, 0).to_vec();
            let ws = word.slice.0;
            let strip0 = |x: &[char]| x.iter().filter(|c| **c != '\0').collect::<String>();
            // typed letter by letter, then - one word in three - mistyped at full length and deleted letter by letter again
            // (every query then no longer than the one before it)
            let mut order: Vec<usize> = (1..=cs.len()).collect();
            let backspace = cs.len() >= 2 && cx.rng.chance(1, 3);
            if backspace {
                order.push(0);
                order.extend((1..cs.len()).rev());
                cx.count("words typed, mistyped at full length and deleted again letter by letter");
            }
            for plen in order {
                if plen == 0 {
                    // the mistyped spelling: last letter replaced (its answer is not judged here)
                    let mut m = cs.clone();
                    let last = m.len() - 1;
                    m[last] = if m[last] == 'x' { 'o' } else { 'x' };
                    let _ = st.search(&s(&m));
                    continue;
                }
                if !cs[plen - 1].is_alphanumeric() {
                    continue;
                }
                let q = s(&cs[..plen]);
                if !oracle::stable(&st.store.lang, &q, &[&cs[..plen]]) {
                    cx.count("skipped_unstable");
                    continue;
                }
                if backspace && plen >= 2 {
                    // the letter just typed was first mistyped and is corrected in place: the query before the judged one
                    // has the same length and differs in its last letter only
                    let mut m = cs[..plen].to_vec();
                    m[plen - 1] = if m[plen - 1] == 'x' { 'o' } else { 'x' };
                    let _ = st.search(&s(&m));
                    cx.count("exact prefixes typed right after the same prefix with its last letter mistyped");
                }
                cx.ctx(format!("C05c lang={} title={:?} q={:?}", lang, title, q));
                let hits = st.search(&q);
                cx.eval();
                cx.count("exact-prefix case");
                cx.key(hparts(&[lang, &title, &q, "exact"]));
                // up to the end of an original character that folds to two: the span may include the pad
                let mut end = ws + plen;
                while end < tok.source.len() && tok.source[end] == '\0' && tok.chars[end] != '\0' {
                    end += 1;
                    cx.count("exact-prefix ending inside an expanded letter");
                }
                let expect = format!("{}{}{}{}{}", strip0(&tok.source[..ws]), S1, strip0(&tok.source[ws..end]), S2, strip0(&tok.source[end..]));
                if hits.len() != 1 || hits[0].1 != expect {
                    cx.fail("exact-prefix-highlight", json!({"lang": lang, "title": title, "query": q, "got": hits, "expected": expect}));
                } else if cx.want_sample() && plen == 3 {
                    cx.sample(|| json!({"lang": lang, "title": title, "query": q, "returned": hits[0].1}));
                }
            }
        }
    }

    /// C02 bridge clause: the real WASM bridge source, compiled natively, frames titles with NUL.
    fn bridge_case(&self, cx: &mut Cx, lang: &'static str) {
        let corpus = corpus_recs();
        let id = 700_000 + cx.idx as usize;
        create_store(id, take_lang(lang));
        if cx.rng.chance(1, 3) {
            // the id had an earlier life that ended with hits in its result buffer: a new life starts with an empty buffer
            // (read before its first search), whatever language it is created with
            add_record(id, 11, "metal mailbox", 3);
            add_record(id, 12, "yellow metal", 1);
            run_search(id, "metal");
            let before = bridge::get_result_ids(id);
            destroy_store(id);
            create_store(id, take_lang(lang));
            let ids = bridge::get_result_ids(id);
            let titles = bridge::get_result_titles(id);
            cx.eval();
            cx.count("result buffers read right after an id was destroyed and created again");
            if !ids.is_empty() || !titles.is_empty() {
                cx.fail("unknown-id", json!({"lang": lang, "history": format!("create({}), add(11, 'metal mailbox'), add(12, 'yellow metal'), search('metal') -> ids {:?}, destroy, create, read results", id, before), "records_now_in_the_store": [], "result_ids": ids, "result_titles": titles}));
                destroy_store(id);
                return;
            }
        }
        let n = cx.rng.range(1, 6);
        let mut recs: Vec<Rec> = vec![];
        for i in 0..n {
            let t = shape_title(&mut cx.rng, lang, &corpus);
            let r = (10 + i, t, cx.rng.below(9));
            bridge::add_record(id, r.0, &r.1, r.2);
            recs.push(r);
        }
        let (ml, mr) = *cx.rng.pick(gen::MARKERS);
        bridge::highlight_with(id, ml, mr);
        let limit = *cx.rng.pick(&[10, 1, 3, 0, 65536]);
        bridge::set_limit(id, limit);
        let model = St::build(lang, &recs, limit, (ml, mr));
        for _ in 0..6 {
            let q = shape_query(&mut cx.rng, lang, &model.store.lang, &recs, Which::Titles);
            cx.ctx(format!("bridge lang={} recs={:?} q={:?}", lang, recs, q));
            bridge::run_search(id, &q);
            let ids = bridge::get_result_ids(id);
            let titles = bridge::get_result_titles(id);
            let want = model.search(&q);
            cx.eval();
            cx.count("bridge searches");
            let fields: Vec<&str> = titles.split('\0').collect();
            let ok = fields.len() == ids.len() + 1
                && fields[fields.len() - 1].is_empty()
                && ids == want.iter().map(|h| h.0).collect::<Vec<_>>()
                && fields[..ids.len()].iter().zip(want.iter()).all(|(f, h)| *f == h.1);
            if !want.is_empty() {
                cx.count("bridge searches with hits");
                cx.key(hparts(&[lang, &q, &titles, "bridge"]));
            }
            if !ok {
                cx.fail("bridge-framing", json!({"lang": lang, "records": recs, "query": q, "markers": [ml, mr], "bridge_ids": ids, "bridge_titles": titles, "core_hits": want}));
            } else if cx.want_sample() && want.len() >= 2 {
                cx.sample(|| json!({"lang": lang, "query": q, "bridge_ids": ids, "bridge_titles_nul_framed": titles}));
            }
        }
        bridge::destroy_store(id);
    }
}

impl Shape {
    /// C02 for a language drawn at random (`userlang.rs`): a store of that language, titles made of the pieces its tables
    /// mention; every hit carries an id that was added, no NUL, and - markers deleted - the stored title with the language's
    /// compositions applied (by the case's own reading of the table) and NULs dropped.
    fn user_lang_titles(&self, cx: &mut Cx) {
        let mut twin = Rng(cx.rng.0);
        let mut ul = crate::userlang::UserLang::random(&mut cx.rng);
        // (a second language object built from the same tables: the oracle side of C05 / C09 tokenises with it)
        let ul2 = crate::userlang::UserLang::random(&mut twin);
        let desc = ul.desc();
        let n = cx.rng.range(1, 4);
        let recs: Vec<Rec> = (0..n).map(|i| (i + 1, ul.text(&mut cx.rng, 4), cx.rng.below(5))).collect();
        let toks: Vec<TextOwn> = recs.iter().map(|r| tokenization::tokenize_record(&r.1, &ul2.lang)).collect();
        let mut store = Store::new();
        store.lang = std::mem::replace(&mut ul.lang, Lang::new());
        store.limit = 10;
        store.highlight_with((&S1.to_string(), &S2.to_string()));
        for r in &recs {
            let rec = Record::new(r.0, &r.1, r.2, &store.lang);
            store.add(rec);
        }
        cx.count("stores of a language drawn at random");
        for qk in 0..6 {
            // queries: nothing, a stretch of a title as it was typed, a whole title, another text of the language
            let t: Vec<char> = cx.rng.pick(&recs).1.chars().collect();
            let q: String = match qk {
                0 => String::new(),
                1 => s(&t),
                5 => ul.word(&mut cx.rng, 3),
                _ if t.is_empty() => String::new(),
                _ => {
                    let a = cx.rng.below(t.len());
                    let b = cx.rng.range(a + 1, t.len());
                    s(&t[a..b])
                }
            };
            cx.ctx(format!("C02 user-defined language {} recs={:?} q={:?}", desc, recs, q));
            let hits: Hits = store.search(&tokenize_query(&q, &store.lang).to_ref()).into_iter().map(|r| (r.id, r.title)).collect();
            cx.eval();
            let tq = tokenize_query(&q, &ul2.lang);
            for hit in &hits {
                cx.eval();
                let describe = |hit: &(usize, String)| json!({"language": "defined by the case through the public Lang API", "tables": desc, "records": recs, "query": q, "hit": {"id": hit.0, "title": hit.1}});
                let rec = match recs.iter().find(|r| r.0 == hit.0) {
                    None => {
                        cx.fail("unknown-id", describe(hit));
                        continue;
                    }
                    Some(r) => r,
                };
                if self.0 != Which::Titles {
                    // C09 / C05 on the same stores: the markup parsed against the record's tokenisation by the twin language object
                    let rtok = &toks[rec.0 - 1];
                    cx.count("hits in stores of a random language");
                    match oracle::spans_of(&hit.1, rtok) {
                        Err(e) => {
                            if self.0 == Which::Markup {
                                cx.fail("markup-unbalanced", json!({"tables": desc, "stored": rec.1, "query": q, "returned": hit.1, "error": e}));
                            }
                        }
                        Ok(spans) => {
                            if !spans.is_empty() {
                                cx.count("hits with a span in stores of a random language");
                                cx.key(hparts(&["userlang", &desc.to_string(), &rec.1, &q]));
                            }
                            let stretch = if tq.words.is_empty() { 0 } else { tq.words[tq.words.len() - 1].slice.1 - tq.words[0].slice.0 };
                            for (a, b) in &spans {
                                if self.0 == Which::Markup {
                                    match rtok.words.iter().find(|w| w.slice.0 == *a) {
                                        None => cx.fail("span-not-at-word-start", json!({"tables": desc, "stored": rec.1, "query": q, "returned": hit.1, "span": [a, b]})),
                                        Some(w) => {
                                            if *b > w.slice.1 {
                                                cx.fail("span-crosses-word-end", json!({"tables": desc, "stored": rec.1, "query": q, "returned": hit.1, "span": [a, b]}));
                                            }
                                        }
                                    }
                                } else if !tq.words.is_empty() && b - a > stretch + 1 {
                                    cx.fail("span-longer-than-typed", json!({"tables": desc, "stored": rec.1, "query": q, "returned": hit.1, "span": [a, b], "query_stretch": stretch}));
                                }
                            }
                            if self.0 == Which::Markup && spans.is_empty() != tq.words.is_empty() && spans.is_empty() == oracle::has_alnum(&q) {
                                cx.fail(if spans.is_empty() { "hit-without-highlight" } else { "highlight-without-query-word" }, json!({"tables": desc, "stored": rec.1, "query": q, "returned": hit.1}));
                            }
                            if self.0 == Which::Related && !tq.words.is_empty() && oracle::grams_of(rtok).intersection(&oracle::grams_of(&tq)).next().is_none() {
                                cx.fail("unrelated-hit", describe(hit));
                            }
                        }
                    }
                    continue;
                }
                if hit.1.contains('\0') {
                    cx.fail("nul-in-title", describe(hit));
                }
                let stripped = oracle::strip_sentinels(&hit.1);
                let expect: String = ul.composed(&cv(&rec.1)).into_iter().filter(|c| *c != '\0').collect();
                if stripped != expect {
                    cx.fail("title-altered", json!({"language": "defined by the case through the public Lang API", "tables": desc, "stored": rec.1, "query": q, "returned": hit.1, "expected_without_markers": expect}));
                }
                cx.count("hits in stores of a random language");
                if hit.1.contains(S1) {
                    cx.count("hits with a span in stores of a random language");
                    if expect != rec.1.replace('\0', "") {
                        cx.count("hits with a span whose title a random language composed");
                        cx.key(hparts(&["userlang", &desc.to_string(), &rec.1, &q]));
                    }
                }
            }
        }
    }
}

impl Prop for Shape {
    fn id(&self) -> &'static str {
        match self.0 {
            Which::Titles => "C02",
            Which::Related => "C05",
            Which::Markup => "C09",
        }
    }
    fn rule(&self) -> &'static str {
        match self.0 {
            Which::Titles => "stores of 1-6 hostile / accented / realistic titles in 7 languages, 8 related, hostile or separator-only queries each, under sentinel markers and under a configured marker pair; every hit: id was added, no NUL, title minus sentinels == independently composed stored title, marker result == sentinel result with markers substituted; plus the real WASM bridge source compiled natively (NUL framing). Non-trivial = hit with a highlighted span whose title needed composition / has an expanding letter / NUL / contains the marker text (or, bridge stream, a non-empty framed result); distinct by (language, title, query, markers)",
            Which::Related => "same stores, queries with >= 1 word incl. fuzzy one-word queries (2-3 cheap letters deleted from a title word): every hit shares a gram (independently computed from the public tokenisation) and a letter with the query, no span exceeds the query stretch + 1; plus every stable prefix of every one-word vocabulary title: highlight == exactly the typed characters. Non-trivial = hit with a fuzzy span or with a span count different from the query word count, or an exact-prefix case; distinct by (language, title, query)",
            Which::Markup => "same stores and queries: every returned title parses into alternating non-nested non-empty spans over the stored title, each span starts at a word start of the public tokenisation and ends inside that word, no word twice, spans present iff the query has a letter or digit. Distinct by (language, title, query); counters record multi-span and padded cases",
        }
    }
    fn streams(&self) -> Vec<Stream> {
        match self.0 {
            Which::Titles => vec![Stream::new("stores", 16000, 800000), Stream::new("bridge", 3200, 160000), Stream::new("userlang", 4000, 200000)],
            Which::Related => vec![Stream::new("userlang", 4000, 200000), Stream::new("stores", 16000, 800000), Stream::new("exact", 168, 8400), Stream::new("joined", 8000, 400000), Stream::new("corpus", 64, 1600), Stream::new("big", 16, 160), Stream::new("session", 16, 96)],
            Which::Markup => vec![Stream::new("userlang", 4000, 200000), Stream::new("stores", 20000, 1000000), Stream::new("joined", 16000, 800000)],
        }
    }
    fn floors(&self) -> Vec<(&'static str, u64, u64)> {
        match self.0 {
            Which::Titles => vec![("hit with span", 2000, 20000), ("hit whose title needed composition", 50, 500), ("hit with expanding letter", 50, 500), ("hit whose title has NUL", 30, 300), ("hit whose title contains marker text", 50, 500), ("bridge searches with hits", 200, 2000), ("empty-query searches", 100, 1000), ("stores cleared and refilled before a search", 1000, 10000), ("stores of 70-150 records with one very long title", 100, 5000)],
            Which::Related => vec![("hit with fuzzy span", 200, 2000), ("hit with joined-record spans", 20, 200), ("exact-prefix case", 2000, 20000), ("words typed, mistyped at full length and deleted again letter by letter", 300, 3000), ("exact prefixes typed right after the same prefix with its last letter mistyped", 1000, 10000), ("exact-prefix ending inside an expanded letter", 5, 50), ("corpus-store searches", 300, 8000), ("corpus-store searches with more than 8 query words", 50, 1200), ("big-catalogue searches", 100, 1000), ("registry searches", 3000, 30000), ("stores with a 16-bit look-alike gram pair", 100, 1000), ("stores cleared and refilled before a search", 1000, 10000), ("session searches on one store", 600000, 4000000), ("session hits judged", 60000, 400000)],
            Which::Markup => vec![("hit with 2+ spans", 500, 5000), ("stores cleared and refilled before a search", 1000, 10000), ("joined-record split (more spans than query words)", 20, 200), ("hit of separator-only query", 200, 2000), ("span in title with padding", 30, 300), ("joined-with-typos hits with 2+ spans and typos", 2000, 100000), ("stores with opening and closing markers of different lengths", 1000, 10000), ("hits with more than 255 highlighted words", 100, 1000)],
        }
    }
    fn run(&self, cx: &mut Cx, stream: &str, idx: u64) {
        let lang = LANGS[(idx % NL) as usize];
        match stream {
            "userlang" => self.user_lang_titles(cx),
            "stores" => self.store_case(cx, lang),
            "exact" => self.exact_prefix_case(cx, lang),
            "bridge" => self.bridge_case(cx, lang),
            "joined" => self.joined_case(cx, lang),
            "corpus" => self.corpus_case(cx, if idx % 2 == 0 { "en" } else { "none" }),
            "big" => self.big_case(cx, lang),
            "session" => self.session_case(cx, LANGS[((idx / 2) % NL) as usize]),
            _ => {}
        }
    }
    fn assumptions(&self) -> Vec<&'static str> {
        match self.0 {
            Which::Titles => vec![
                "the composed form of a title is computed by the harness's own composer from the documented accent inventory (DESIGN.md Appendix A)",
                "sentinel markers U+E000/U+E001 never occur in generated titles",
                "the WASM bridge is compiled natively from /repo/rust/wasm/src/lib.rs with a no-op #[wasm_bindgen] attribute; the JS side's split on NUL is modelled",
            ],
            Which::Related => vec!["gram sets and word positions come from the public tokeniser's output, as the property text states"],
            Which::Markup => vec!["span positions are compared with tokenize_record(title).words, as the property text states"],
        }
    }
}
