pub mod finds;
pub mod shape;

use crate::fw::Prop;

pub fn get(id: &str) -> Option<Box<dyn Prop>> {
    Some(match id {
        "C02" => Box::new(shape::Shape(shape::Which::Titles)),
        "C05" => Box::new(shape::Shape(shape::Which::Related)),
        "C09" => Box::new(shape::Shape(shape::Which::Markup)),
        "C03" => Box::new(finds::Finds(finds::Which::Prefix)),
        "C04" => Box::new(finds::Finds(finds::Which::Typo)),
        "C13" => Box::new(finds::Finds(finds::Which::Whole)),
        "C14" => Box::new(finds::Finds(finds::Which::SplitJoin)),
        _ => return None,
    })
}
