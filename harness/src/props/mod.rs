pub mod finds;
pub mod prims;
pub mod token;
pub mod history;
pub mod ranking;
pub mod shape;

use crate::fw::Prop;

pub fn get(id: &str) -> Option<Box<dyn Prop>> {
    Some(match id {
        "C01" => Box::new(history::History(history::Which::NoCrash)),
        "C10" => Box::new(history::History(history::Which::NoStale)),
        "C20" => Box::new(history::History(history::Which::Registry)),
        "C02" => Box::new(shape::Shape(shape::Which::Titles)),
        "C05" => Box::new(shape::Shape(shape::Which::Related)),
        "C09" => Box::new(shape::Shape(shape::Which::Markup)),
        "C06" => Box::new(ranking::Ranking(ranking::Which::Verdicts)),
        "C07" => Box::new(ranking::Ranking(ranking::Which::Order)),
        "C08" => Box::new(ranking::Ranking(ranking::Which::Rules)),
        "C12" => Box::new(ranking::Ranking(ranking::Which::Empty)),
        "C03" => Box::new(finds::Finds(finds::Which::Prefix)),
        "C04" => Box::new(finds::Finds(finds::Which::Typo)),
        "C11" => Box::new(token::Token(token::Which::Variants)),
        "C15" => Box::new(token::Token(token::Which::Invariants)),
        #[cfg(lucid_suggest_verif)]
        "C16" => Box::new(prims::Prims(prims::Which::Distance)),
        #[cfg(lucid_suggest_verif)]
        "C17" => Box::new(prims::Prims(prims::Which::Jaccard)),
        "C18" => Box::new(prims::Prims(prims::Which::Index)),
        #[cfg(lucid_suggest_verif)]
        "C19" => Box::new(prims::Prims(prims::Which::Unchecked)),
        "C13" => Box::new(finds::Finds(finds::Which::Whole)),
        "C14" => Box::new(finds::Finds(finds::Which::SplitJoin)),
        _ => return None,
    })
}
