//! C06, C07, C08, C12: which records are listed and in which order.

use crate::common::*;
use crate::fw::*;
use crate::gen;
use crate::props::finds::corpus_recs;
use lucid_suggest_core::*;
use serde_json::json;
use std::collections::{BTreeMap, BTreeSet};

#[derive(Clone, Copy, PartialEq, Eq)]
pub enum Which {
    Verdicts, // C06
    Order,    // C07
    Rules,    // C08
    Empty,    // C12
}

pub struct Ranking(pub Which);

fn rank_query(rng: &mut Rng, lang: &str, lobj: &Lang, recs: &[Rec]) -> String {
    if recs.is_empty() {
        return gen::any_word(rng, lang);
    }
    match rng.below(10) {
        0 => String::new(),
        1 => {
            // one or two letters: many records share a gram -> exercises the candidate cap
            let t = gen::tok_record(lobj, &rng.pick(recs).1);
            if t.words.is_empty() {
                "a".to_string()
            } else {
                let w = word_chars(&t, rng.below(t.words.len()));
                s(&w[..rng.range(1, w.len().min(2))])
            }
        }
        2 => gen::any_word(rng, lang),
        _ => {
            let t = rng.pick(recs).1.clone();
            gen::related_query(rng, lang, lobj, &t)
        }
    }
}

/// Titles from a small repetitive vocabulary so that many records match the same query.
fn crowded_recs(rng: &mut Rng, lang: &str, n: usize, corpus: &[Rec], distinct: bool) -> Vec<Rec> {
    let v = gen::vocab(lang);
    let k = rng.range(3, 10);
    let pool: Vec<&str> = (0..k).map(|_| *rng.pick(&v)).collect();
    // distinct ratings: spread out, or dense (consecutive integers from some base: every neighbour one apart)
    let dense = distinct && rng.chance(1, 3);
    let base = if dense { *rng.pick(&[0usize, 1, 1000, (1 << 24) - 3, (1usize << 31) - 1 - 700]) } else { 0 };
    let mut ratings: Vec<usize> = (0..n).map(|i| if dense { base + i } else if distinct { i * 5 + 1 + rng.below(5) } else { rng.below(3) }).collect();
    let high_words = distinct && !dense && rng.chance(1, 8);
    if high_words {
        // pairwise distinct ratings that agree in their lower 32 bits in groups of n/3 (a 64-bit host can hold them)
        ratings = (0..n).map(|i| (i % 3) + (i << 32)).collect();
    } else if !dense {
        gen::scale_ratings(rng, &mut ratings);
    }
    rng.shuffle(&mut ratings);
    let odd = rng.chance(1, 3);
    let mut idrng = rng.clone();
    (0..n)
        .map(|i| {
            let title = if rng.chance(1, 5) {
                gen::realistic_title(rng, lang, corpus)
            } else if rng.chance(1, 30) {
                // a record without any word, or one word twice
                match rng.below(3) {
                    0 => String::new(),
                    1 => " - ".to_string(),
                    _ => {
                        let w = *rng.pick(&pool);
                        format!("{} {}", w, w)
                    }
                }
            } else {
                let m = rng.range(1, 3);
                (0..m).map(|_| *rng.pick(&pool)).collect::<Vec<_>>().join(*rng.pick(&[" ", " ", "-", ", "]))
            };
            (if odd { gen::odd_id(&mut idrng, i) } else { 1000 + i }, title, ratings[i])
        })
        .collect()
}

/// The same records and the same final limit, but reached through a life: records arrive in portions, and between
/// the portions the store answers empty-query and word searches and has its limit lowered, raised and restored.
fn build_staged(cx: &mut Cx, lang: &'static str, recs: &[Rec], limit: usize, q: &str) -> St {
    let mut st = St::sentinel(lang, if cx.rng.chance(1, 2) { limit } else { cx.rng.range(1, 3) });
    let choices = [limit, limit, limit / 2, 1, 2, limit + 2, 0];
    let mut next = 0usize;
    // (the walk goes on for up to four steps after the last record has arrived: limit changes - to 0 as well - and word
    // searches with nothing added between them and the judged search)
    let mut epilogue = cx.rng.below(5);
    while next < recs.len() || epilogue > 0 {
        if next >= recs.len() {
            epilogue -= 1;
        }
        match if next >= recs.len() { cx.rng.below(4) } else { cx.rng.below(6) } {
            0 => {
                let _ = st.search("");
            }
            1 => {
                let _ = st.search(q);
                // ... and a word many of the records added so far share
                if next > 0 {
                    let w: String = recs[cx.rng.below(next)].1.split(|c: char| !c.is_alphanumeric()).next().unwrap_or("").to_string();
                    let _ = st.search(&w);
                    let _ = st.search(&w.chars().take(2).collect::<String>());
                }
            }
            2 | 3 => st.store.limit = *cx.rng.pick(&choices),
            _ => {
                let upto = (next + cx.rng.range(1, (recs.len() / 3).max(1))).min(recs.len());
                for r in &recs[next..upto] {
                    st.add(r);
                }
                next = upto;
            }
        }
    }
    if cx.rng.chance(1, 2) {
        let _ = st.search("");
    }
    st.store.limit = limit;
    cx.count("stores built in stages with searches and limit changes in between");
    st
}

/// Families of similar words (shared prefixes, one letter apart): records whose scores depend on
/// fuzzy matching, where scratch state left by a neighbouring record would show.
fn similar_recs(rng: &mut Rng, lang: &str, n: usize) -> (Vec<Rec>, Vec<String>) {
    let alpha = gen::lower_alphabet(lang);
    let v: Vec<&str> = gen::vocab(lang).into_iter().filter(|w| w.chars().count() >= 5 && w.chars().all(|c| c.is_alphabetic())).collect();
    let mut family: Vec<String> = vec![];
    for _ in 0..rng.range(1, 2) {
        let base: Vec<char> = if rng.chance(1, 3) || v.is_empty() { cv(&gen::rand_word(rng, &alpha, 5, 8)) } else { { let w: &str = *rng.pick(&v[..]); w.chars().flat_map(|c| c.to_lowercase()).collect() } };
        family.push(s(&base));
        for _ in 0..rng.range(2, 4) {
            let mut w = base.clone();
            let p = rng.range(1, w.len() - 1);
            match rng.below(3) {
                0 => w[p] = *rng.pick(&alpha),
                1 => w.insert(p, *rng.pick(&alpha)),
                _ => {
                    w.remove(p);
                }
            }
            family.push(s(&w));
        }
    }
    let mut ratings: Vec<usize> = (0..n).map(|i| i * 5 + 1 + rng.below(5)).collect();
    gen::scale_ratings(rng, &mut ratings);
    rng.shuffle(&mut ratings);
    let recs = (0..n)
        .map(|i| {
            let mut t = rng.pick(&family).clone();
            if rng.chance(1, 3) {
                t = format!("{} {}", t, rng.pick(&family));
            }
            (1000 + i, t, ratings[i])
        })
        .collect();
    (recs, family)
}

fn similar_query(rng: &mut Rng, lang: &str, family: &[String]) -> String {
    let alpha = gen::lower_alphabet(lang);
    let w = cv(rng.pick(family).as_str());
    match rng.below(6) {
        0 => s(&w[..rng.range(1, w.len())]),
        1 => s(&w),
        2 | 3 => {
            // adjacent transposition
            let mut e = w.clone();
            let p = rng.below(e.len() - 1);
            e.swap(p, p + 1);
            s(&e)
        }
        _ => s(&gen::rand_edit(rng, &w, &alpha)),
    }
}

impl Ranking {
    /// A store that meets its longest word in the middle of a search, on a thread that has never matched anything: the
    /// library's per-thread distance matrix grows while the records are being judged. The query starts with a cheap
    /// letter (a vowel, where the language has classes); record 1 starts like the query, record 2 is a word of 23-80 letters
    /// that starts like the query, records 3 and 4 match the query only with its first letter dropped - right at the
    /// threshold. The store's list and every record's own verdict are taken on threads of their own.
    fn growth_case(&self, cx: &mut Cx, lang: &'static str) {
        let alpha: Vec<char> = gen::lower_alphabet(lang).into_iter().filter(|c| c.is_alphabetic()).collect();
        let vowels: Vec<char> = if base_lang(lang) == "ru" { cv("аеиоу") } else { cv("aeiou") };
        let cons: Vec<char> = alpha.iter().cloned().filter(|c| !vowels.contains(c)).collect();
        if cons.len() < 4 {
            return;
        }
        let v = *cx.rng.pick(&vowels);
        let stem = gen::rand_word(&mut cx.rng, &cons, 3, 3);
        let q = format!("{}{}", v, stem);
        let word = |rng: &mut Rng, lo: usize, hi: usize| gen::rand_word(rng, &alpha, lo, hi);
        let long_len = *cx.rng.pick(&[19usize, 20, 25, 30, 45, 76]);
        let mut recs: Vec<Rec> = vec![
            (1, format!("{}{} {}", q, word(&mut cx.rng, 2, 3), word(&mut cx.rng, 3, 6)), 60),
            (2, format!("{}{} {}", q, word(&mut cx.rng, long_len, long_len + 4), word(&mut cx.rng, 3, 6)), 50),
            (3, format!("{}{} {}", stem, word(&mut cx.rng, 1, 1), word(&mut cx.rng, 3, 6)), 40),
            (4, format!("{}{} {}", stem, word(&mut cx.rng, 4, 6), word(&mut cx.rng, 3, 6)), 30),
            (5, gen::rand_title(&mut cx.rng, lang, 3), 20),
        ];
        if cx.rng.chance(1, 3) {
            recs.swap(0, 1);
        }
        let limit = recs.len() + 2;
        cx.ctx(format!("C06 growth lang={} recs={:?} limit={} q={:?}", lang, recs, limit, q));
        let (r2, q2) = (recs.clone(), q.clone());
        let full = on_new_thread(move || St::build_sentinel(lang, &r2, limit).search(&q2));
        cx.eval();
        cx.count("stores that meet their longest word in the middle of a search on a fresh thread");
        if full.len() >= 3 {
            cx.count("such stores in which the records that need the query's first letter dropped are hits");
            cx.key(hparts(&[lang, &format!("{:?}", recs), &q, "growth"]));
        }
        for r in &recs {
            let (r1, q2) = (r.clone(), q.clone());
            let alone = on_new_thread(move || St::build_sentinel(lang, &[r1], limit).search(&q2));
            cx.eval();
            let found: Hits = full.iter().filter(|h| h.0 == r.0).cloned().collect();
            if found != alone {
                cx.fail("hit-differs-from-solo-store", json!({"case": {"lang": lang, "records": recs, "limit": limit, "query": q}, "record": r, "in_the_full_store": found, "solo_store_result": alone,
                    "note": "the store's list and the solo store's list were each computed on a thread of their own"}));
                return;
            }
        }
    }

    fn verdicts(&self, cx: &mut Cx, lang: &'static str) {
        if (cx.idx / 12) % 10 == 7 && cx.tier != Tier::Miri {
            return self.growth_case(cx, lang);
        }
        let corpus = corpus_recs();
        let n = match cx.rng.below(4) {
            0 => cx.rng.range(1, 6),
            1 => cx.rng.range(5, 20),
            _ => if cx.rng.chance(1, 6) { cx.rng.range(66, 260) } else { cx.rng.range(10, 65) },
        };
        if n > 65 {
            cx.count("stores of 66-260 records");
        }
        let ties = cx.rng.chance(1, 5);
        let mut recs = crowded_recs(&mut cx.rng, lang, n, &corpus, !ties);
        let mut limit = match cx.rng.below(6) {
            0 => 0,
            1 => cx.rng.range(1, 3),
            2 => n + cx.rng.below(3),
            _ => cx.rng.below(n + 3),
        };
        // one case in twenty sits exactly on the edge of the completeness half: |store| == 10*limit, one word in every
        // record but one, and that one sharing nothing with it but its first letter(s); queries are misspellings of the word
        let mut edge_queries: Vec<String> = vec![];
        if cx.rng.chance(1, 20) {
            let alpha = gen::lower_alphabet(lang);
            limit = cx.rng.range(1, 6);
            let w = gen::rand_word(&mut cx.rng, &alpha, 4, 6);
            let wc = cv(&w);
            recs = (0..10 * limit - 1).map(|i| (2000 + i, format!("{} {}", w, gen::rand_word(&mut cx.rng, &alpha, 2, 5)), 3 * i + 1)).collect();
            let keep = cx.rng.range(1, 2);
            recs.push((1999, format!("{}{} {}", s(&wc[..keep]), gen::rand_word(&mut cx.rng, &alpha, 2, 3), gen::rand_word(&mut cx.rng, &alpha, 3, 5)), 2));
            let mut t = wc[..3].to_vec();
            t.swap(1, 2);
            edge_queries.push(s(&t));
            let mut t2 = wc.clone();
            t2.swap(1, 2);
            edge_queries.push(s(&t2));
            edge_queries.push(s(&wc[..2]));
            cx.count("stores of exactly 10*limit records sharing one word");
        }
        let n = recs.len();
        let unl = St::build_sentinel(lang, &recs, n + 1);
        for qk in 0..3 {
            let q = rank_query(&mut cx.rng, lang, &unl.store.lang, &recs);
            let q = edge_queries.get(qk).cloned().unwrap_or(q);
            cx.ctx(format!("C06 lang={} recs={:?} limit={} q={:?}", lang, recs, limit, q));
            // a freshly built store per configuration; one in four is built in stages instead: some records, an empty-query
            // and a word search under another limit, a limit change, the remaining records, the final limit
            let st = if recs.len() >= 2 && cx.rng.chance(1, 4) {
                build_staged(cx, lang, &recs, limit, &q)
            } else {
                St::build_sentinel(lang, &recs, limit)
            };
            let got = st.search(&q);
            // the reference lists: one case in eight computes them on threads of their own, so that the store under
            // observation and its references do not share the library's per-thread scratch state
            let apart = cx.rng.chance(1, 8);
            if apart {
                cx.count("configurations whose reference stores live on threads of their own");
            }
            let all = if apart {
                let (r2, q2, n2) = (recs.clone(), q.clone(), n);
                on_new_thread(move || St::build_sentinel(lang, &r2, n2 + 1).search(&q2))
            } else {
                unl.search(&q)
            };
            cx.eval();
            let desc = || json!({"lang": lang, "records": recs, "limit": limit, "query": q});
            if got.len() > limit {
                cx.fail("more-hits-than-limit", json!({"case": desc(), "got": got}));
            }
            let ids: BTreeSet<usize> = got.iter().map(|h| h.0).collect();
            if ids.len() != got.len() {
                cx.fail("record-returned-twice", json!({"case": desc(), "got": got}));
            }
            // soundness, any store size
            for h in &got {
                let rec = match recs.iter().find(|r| r.0 == h.0) {
                    Some(r) => r,
                    None => {
                        cx.fail("unknown-id", json!({"case": desc(), "hit": h}));
                        continue;
                    }
                };
                let sh = if apart {
                    let (r2, q2) = (rec.clone(), q.clone());
                    on_new_thread(move || St::build_sentinel(lang, &[r2], 1).search(&q2))
                } else {
                    St::build_sentinel(lang, &[rec.clone()], 1).search(&q)
                };
                cx.eval();
                if sh.len() != 1 || sh[0] != *h {
                    cx.fail("hit-differs-from-solo-store", json!({"case": desc(), "hit": h, "solo_store_result": sh}));
                }
            }
            if n > 10 * limit {
                cx.count("beyond the 10x cap (soundness only)");
            } else {
                // completeness
                let allids: BTreeSet<usize> = all.iter().map(|h| h.0).collect();
                let mut solo_hits = BTreeSet::new();
                for r in &recs {
                    let solo = St::build_sentinel(lang, &[r.clone()], 1);
                    if !solo.search(&q).is_empty() {
                        solo_hits.insert(r.0);
                    }
                    cx.eval();
                }
                if allids != solo_hits {
                    cx.fail("unlimited-list-differs-from-solo-verdicts", json!({"case": desc(), "unlimited_ids": allids, "solo_hit_ids": solo_hits}));
                }
                if !ties {
                    let exp: Hits = all.iter().take(limit).cloned().collect();
                    if exp != got {
                        cx.fail("not-the-first-limit-of-unlimited", json!({"case": desc(), "got": got, "expected": exp}));
                    }
                } else {
                    cx.count("store with tied ratings (set comparison)");
                    if got.len() != limit.min(all.len()) || !ids.is_subset(&allids) {
                        cx.fail("tied-store-wrong-hit-count-or-foreign-hit", json!({"case": desc(), "got": got, "unlimited": all}));
                    }
                    let allmap: BTreeMap<usize, &String> = all.iter().map(|h| (h.0, &h.1)).collect();
                    if got.iter().any(|h| allmap.get(&h.0) != Some(&&h.1)) {
                        cx.fail("tied-store-title-differs", json!({"case": desc(), "got": got, "unlimited": all}));
                    }
                }
                if all.len() > limit {
                    cx.count("truncated (more matches than limit)");
                }
                if limit > 0 && all.len() >= 2 * limit {
                    cx.count("selection buffer refilled (matches >= 2*limit)");
                }
            }
            if limit == 0 {
                cx.count("limit 0");
            }
            if q.is_empty() {
                cx.count("empty query");
            }
            if !all.is_empty() {
                cx.key(hparts(&[lang, &format!("{:?}", recs), &q, &limit.to_string()]));
                if cx.want_sample() && all.len() > limit && limit > 0 {
                    cx.sample(|| json!({"lang": lang, "records": recs.len(), "limit": limit, "query": q, "got": got, "unlimited_len": all.len()}));
                }
            }
        }
    }

    /// C06 on the whole e-commerce corpus: far beyond the candidate cap (soundness), and with a
    /// limit of 400 (|store| <= 10*limit: completeness against the unlimited corpus store).
    /// Stores of 33 000 - 140 000 records that all carry the same one-word title and pairwise distinct ratings: every
    /// record matches the query (and alone would be a hit), so the expected list is known without asking the library
    /// twice - the `limit` best-rated ids in descending rating order. Limits around |store|, |store|/10 and 3277-3300,
    /// where 10*limit and the list length cross 2^15, 2^16 and 2^17.
    fn huge_case(&self, cx: &mut Cx, lang: &'static str) {
        let n = *cx.rng.pick(&[33_000usize, 40_000, 66_000, 70_000, 132_000]);
        let word = *cx.rng.pick(&["a", "ab", "lamp"]);
        let mut order: Vec<usize> = (0..n).collect();
        cx.rng.shuffle(&mut order);
        let mut st = St::sentinel(lang, n + 1);
        for (i, r) in order.iter().enumerate() {
            st.add(&(i, word.to_string(), *r + 1));
        }
        // ids by rating, best first
        let mut best: Vec<usize> = (0..n).collect();
        best.sort_by(|a, b| order[*b].cmp(&order[*a]));
        cx.count("stores of 33 000 - 140 000 records with one title");
        for limit in [n + 1, n, (n + 9) / 10, 3300.max((n + 9) / 10), 32_769.min(n), 65_537.min(n)].iter() {
            st.store.limit = *limit;
            for q in [word, ""].iter() {
                cx.ctx(format!("C06 huge lang={} n={} title={:?} limit={} q={:?}", lang, n, word, limit, q));
                let got = st.search_ids(q);
                cx.eval();
                let want: Vec<usize> = best.iter().take(*limit).cloned().collect();
                if got != want {
                    let first = got.iter().zip(want.iter()).position(|(a, b)| a != b);
                    cx.fail("not-the-first-limit-of-unlimited", json!({"lang": lang, "records": n, "record_shape": format!("every title is {:?}, ratings are a permutation of 1..=n", word), "limit": limit, "query": q,
                        "got_length": got.len(), "expected_length": want.len(), "first_difference_at": first, "got_ids_head": got.iter().take(8).collect::<Vec<_>>(), "expected_ids_head": want.iter().take(8).collect::<Vec<_>>()}));
                    return;
                }
            }
        }
        cx.key(hparts(&[lang, &n.to_string(), word, "huge"]));
    }

    fn verdicts_corpus(&self, cx: &mut Cx, lang: &'static str) {
        let recs = corpus_recs();
        let limit = *cx.rng.pick(&[1usize, 3, 10, 50, 400]);
        let st = St::build_sentinel(lang, &recs, limit);
        for _ in 0..6 {
            let t = cx.rng.pick(&recs).1.clone();
            let q = match cx.rng.below(4) {
                0 => t.chars().take(cx.rng.range(1, 3)).collect::<String>(),
                _ => gen::related_query(&mut cx.rng, lang, &st.store.lang, &t),
            };
            cx.ctx(format!("C06 corpus lang={} limit={} q={:?}", lang, limit, q));
            let got = st.search(&q);
            cx.eval();
            cx.count("corpus-store searches");
            let ids: BTreeSet<usize> = got.iter().map(|h| h.0).collect();
            if got.len() > limit || ids.len() != got.len() {
                cx.fail("more-hits-than-limit-or-duplicate", json!({"lang": lang, "store": "e-commerce corpus", "limit": limit, "query": q, "got": got}));
            }
            for h in got.iter().take(12) {
                let rec = recs.iter().find(|r| r.0 == h.0).cloned();
                let sh = rec.as_ref().map(|r| St::build_sentinel(lang, &[r.clone()], 1).search(&q)).unwrap_or_default();
                cx.eval();
                if sh.len() != 1 || sh[0] != *h {
                    cx.fail("hit-differs-from-solo-store", json!({"lang": lang, "store": "e-commerce corpus", "limit": limit, "query": q, "hit": h, "solo_store_result": sh}));
                }
            }
            if recs.len() <= 10 * limit {
                let all = crate::props::finds::with_corpus_store(lang, |unl, _| unl.search(&q));
                let exp: Hits = all.iter().take(limit).cloned().collect();
                cx.eval();
                cx.count("corpus-store searches compared with the unlimited corpus store");
                // corpus ratings are not pairwise distinct: compare as sets of (id, title) unless the cut is clean
                let cut_clean = all.len() <= limit;
                if (cut_clean && exp != got && exp.iter().cloned().collect::<BTreeSet<_>>() != got.iter().cloned().collect::<BTreeSet<_>>()) || got.len() != limit.min(all.len()) {
                    cx.fail("corpus-not-the-first-limit-of-unlimited", json!({"lang": lang, "limit": limit, "query": q, "got_ids": got.iter().map(|h| h.0).collect::<Vec<_>>(), "expected_ids": exp.iter().map(|h| h.0).collect::<Vec<_>>()}));
                }
            }
            if !got.is_empty() {
                cx.key(hparts(&[lang, &q, &limit.to_string(), "corpus"]));
            }
        }
    }

    /// C06/C07 on stores of a few hundred records with limits of 50-200 (|store| <= 10*limit) where the
    /// number of matches is often an exact multiple of the limit: the selection buffer is compacted
    /// several times and the stream may end exactly on a compaction.
    fn large_case(&self, cx: &mut Cx, lang: &'static str, permute: bool) {
        let huge = cx.rng.chance(1, 30);
        let limit = if huge { cx.rng.range(210, 300) } else { *cx.rng.pick(&[50usize, 64, 64, 100, 128, 128, 150, 200]) };
        let k = cx.rng.range(1, 5);
        let n = if huge { cx.rng.range(2049, 10 * limit) } else if cx.rng.chance(2, 3) { k * limit } else { k * limit + cx.rng.below(limit) };
        let n = n.min(10 * limit).max(2);
        if huge {
            cx.count("stores of more than 2048 records");
        }
        let pool = ["metal", "mettle", "medal", "mailbox", "meter", "melon", "memo", "mesh"];
        let alpha = gen::lower_alphabet(lang);
        let mut ratings: Vec<usize> = (0..n).map(|i| i * 3 + 1 + cx.rng.below(3)).collect();
        gen::scale_ratings(&mut cx.rng, &mut ratings);
        cx.rng.shuffle(&mut ratings);
        let share = cx.rng.chance(2, 3); // every record matches the query
        let recs: Vec<Rec> = (0..n)
            .map(|i| {
                let filler = gen::rand_word(&mut cx.rng, &alpha, 2, 6);
                let t = if share || cx.rng.chance(2, 3) { format!("{} {}", cx.rng.pick(&pool), filler) } else { filler };
                (5000 + i, t, ratings[i])
            })
            .collect();
        let q = *cx.rng.pick(&["me", "me", "me", "m", "m", "met", "metal", "mailbox me"]);
        cx.ctx(format!("C06/C07 large lang={} n={} limit={} q={:?}", lang, n, limit, q));
        let st = St::build_sentinel(lang, &recs, limit);
        let unl = St::build_sentinel(lang, &recs, n + 1);
        let got = st.search(q);
        let all = unl.search(q);
        cx.eval();
        cx.count("large stores (limit 50-200)");
        if all.len() >= 2 * limit && all.len() % limit == 0 {
            cx.count("large stores whose match count is an exact multiple of the limit");
        }
        let exp: Hits = all.iter().take(limit).cloned().collect();
        if got != exp {
            let first = got.iter().zip(exp.iter()).position(|(a, b)| a != b);
            cx.fail("not-the-first-limit-of-unlimited", json!({"lang": lang, "records": n, "record_shape": "'<m-word> <random filler>' with pairwise distinct ratings", "limit": limit, "query": q,
                "matches": all.len(), "first_difference_at": first, "got_ids_head": got.iter().take(12).map(|h| h.0).collect::<Vec<_>>(), "expected_ids_head": exp.iter().take(12).map(|h| h.0).collect::<Vec<_>>()}));
        }
        if permute {
            for _ in 0..2 {
                let mut perm = recs.clone();
                cx.rng.shuffle(&mut perm);
                let h = St::build_sentinel(lang, &perm, limit).search(q);
                cx.eval();
                cx.count("permuted stores");
                if h != got {
                    cx.fail("insertion-order-changes-result", json!({"lang": lang, "records": n, "limit": limit, "query": q, "matches": all.len(),
                        "ids_head": got.iter().take(12).map(|h| h.0).collect::<Vec<_>>(), "permuted_ids_head": h.iter().take(12).map(|h| h.0).collect::<Vec<_>>()}));
                }
            }
        }
        if !all.is_empty() {
            cx.key(hparts(&[lang, &n.to_string(), &limit.to_string(), q, &format!("{:?}", recs.get(0))]));
        }
    }

    /// Three records on a thread that has matched nothing yet: a primer whose word fits the distance matrix's first capacity,
    /// a word of 21-24 letters (the matrix grows while it is compared, with the same query word as the call before), and a
    /// rival of the query's own length; the query starts with a cheap letter that the long word lacks, both rivals carry
    /// vowel-for-vowel substitutions. The order of the two rivals in the full store - every insertion order, each store on a
    /// thread of its own - is their order in the two-record stores.
    fn growth_order_case(&self, cx: &mut Cx, lang: &'static str) {
        let alpha: Vec<char> = gen::lower_alphabet(lang).into_iter().filter(|c| c.is_alphabetic()).collect();
        let vowels: Vec<char> = if base_lang(lang) == "ru" { cv("аеиоу") } else { cv("aeiou") };
        let cons: Vec<char> = alpha.iter().cloned().filter(|c| !vowels.contains(c)).collect();
        if cons.len() < 4 {
            return;
        }
        let n = cx.rng.range(17, 19);
        let base: Vec<char> = (0..n).map(|i| if i % 3 == 1 { *cx.rng.pick(&vowels) } else { *cx.rng.pick(&cons) }).collect();
        let mut q = vec![*cx.rng.pick(&vowels)];
        q.extend_from_slice(&base);
        let other_vowel = |rng: &mut Rng, c: char| -> char {
            let mut v = *rng.pick(&vowels);
            while v == c {
                v = *rng.pick(&vowels);
            }
            v
        };
        let vpos: Vec<usize> = (0..base.len()).filter(|i| vowels.contains(&base[*i])).collect();
        let a: Vec<char> = q[..q.len() - 2].to_vec();
        let mut b = base.clone();
        let p = *cx.rng.pick(&vpos);
        b[p] = other_vowel(&mut cx.rng, b[p]);
        for _ in 0..(21 - b.len().min(21)) + cx.rng.below(3) {
            b.push(*cx.rng.pick(&alpha));
        }
        let mut c = q.clone();
        for _ in 0..cx.rng.range(2, 3) {
            let p = 1 + *cx.rng.pick(&vpos);
            c[p] = other_vowel(&mut cx.rng, c[p]);
        }
        let (ra, rb, rc) = (cx.rng.below(1000), 1000 + cx.rng.below(1000), 2000 + cx.rng.below(1000));
        let recs: Vec<Rec> = vec![(1, s(&a), ra), (2, s(&b), if cx.rng.chance(1, 2) { rb } else { rc + 1000 }), (3, s(&c), rc)];
        let q = s(&q);
        cx.ctx(format!("C07 growth lang={} recs={:?} q={:?}", lang, recs, q));
        let run = |rs: Vec<Rec>, q: String| -> Vec<usize> { on_new_thread(move || St::build_sentinel(lang, &rs, 10).search_ids(&q)) };
        let pair = run(vec![recs[1].clone(), recs[2].clone()], q.clone());
        let pair_rev = run(vec![recs[2].clone(), recs[1].clone()], q.clone());
        cx.eval();
        cx.count("stores whose distance matrix grows between two rivals on a fresh thread");
        if pair != pair_rev {
            cx.fail("pair-order-differs", json!({"lang": lang, "query": q, "pair": [recs[1], recs[2]], "result": pair, "result_when_inserted_the_other_way_round": pair_rev}));
            return;
        }
        if pair.len() == 2 {
            cx.count("such stores in which both rivals are hits");
            cx.key(hparts(&[lang, &format!("{:?}", recs), &q, "growth"]));
        }
        for perm in [[0usize, 1, 2], [1, 0, 2], [0, 2, 1], [2, 1, 0], [1, 2, 0], [2, 0, 1]].iter() {
            let rs: Vec<Rec> = perm.iter().map(|i| recs[*i].clone()).collect();
            let full = run(rs.clone(), q.clone());
            cx.eval();
            cx.count("pair stores");
            cx.count("permuted stores");
            let rivals: Vec<usize> = full.iter().cloned().filter(|id| *id != 1).collect();
            if rivals != pair {
                cx.fail("pair-order-differs", json!({"lang": lang, "query": q, "full_store_inserted": rs, "full_store_result": full, "pair_inserted": [recs[1], recs[2]], "pair_result": pair,
                    "note": "every store was built and searched on a thread of its own"}));
                return;
            }
        }
    }

    fn order(&self, cx: &mut Cx, lang: &'static str) {
        if (cx.idx / 12) % 10 == 7 && cx.tier != Tier::Miri {
            return self.growth_order_case(cx, lang);
        }
        let corpus = corpus_recs();
        let similar = cx.rng.chance(1, 2);
        let n = if similar { cx.rng.range(2, 8) } else { cx.rng.range(2, 30) };
        let (mut recs, family) = if similar { similar_recs(&mut cx.rng, lang, n) } else { (crowded_recs(&mut cx.rng, lang, n, &corpus, true), vec![]) };
        if similar {
            cx.count("stores of similar words");
        }
        if cx.rng.chance(1, 8) {
            // C07 bounds the ratings only by "pairwise distinct": the upper half of the 32-bit range the
            // WASM target can pass (order-preserving shift, distinct stays distinct)
            let top = recs.iter().map(|r| r.2).max().unwrap_or(0);
            if top < (1usize << 31) {
                for r in recs.iter_mut() {
                    r.2 += 1usize << 31;
                }
                cx.count("stores with ratings in [2^31, 2^32)");
            }
        } else if cx.rng.chance(1, 12) {
            // ... and, on a 64-bit host, anything a usize can hold: spread over the whole range (distinct stays distinct)
            let top = recs.iter().map(|r| r.2).max().unwrap_or(0).max(1);
            let f = usize::MAX / top;
            for r in recs.iter_mut() {
                r.2 *= f;
            }
            cx.count("stores with ratings spread over the whole usize range");
        } else if cx.rng.chance(1, 10) {
            // every second record gets its neighbour's rating with one bit flipped (any of the 64), and half of the time its
            // title: two ratings that differ in one bit are as distinct as any two
            let mut seen: BTreeSet<usize> = recs.iter().map(|r| r.2).collect();
            let mut flipped = false;
            for i in (1..recs.len()).step_by(2) {
                for _ in 0..4 {
                    let cand = recs[i - 1].2 ^ (1usize << cx.rng.below(64));
                    if !seen.contains(&cand) {
                        seen.remove(&recs[i].2);
                        seen.insert(cand);
                        recs[i].2 = cand;
                        if cx.rng.chance(1, 2) {
                            recs[i].1 = recs[i - 1].1.clone();
                        }
                        flipped = true;
                        break;
                    }
                }
            }
            if flipped {
                cx.count("stores with pairs of ratings that differ in exactly one bit");
            }
        }
        let limit = *cx.rng.pick(&[n, n + 1, 10.max(n / 10 + 1), (n + 9) / 10, n.max(3) / 3 + 1]);
        let limit = limit.max((n + 9) / 10); // |store| <= 10*limit
        let mut staged = cx.rng.chance(1, 4);
        let mut recs = recs;
        let mut limit = limit;
        let mut planted: Option<String> = None;
        let mut planted_store: Option<St> = None;
        if cx.rng.chance(1, 20) {
            // a store whose past contains a search that more records shared grams with than its limit then let through,
            // and, left out of that search, a short word which the judged query spells with its first two letters swapped
            // (a fuzzy match that shares no gram): 11-25 "PQx." words, the word "PQcd", and "QPcde"
            let alpha = gen::lower_alphabet(lang);
            let (p, q) = (alpha[cx.rng.below(alpha.len())], alpha[cx.rng.below(alpha.len())]);
            let rest: Vec<char> = alpha.iter().cloned().filter(|c| *c != p && *c != q).collect();
            if p != q && rest.len() >= 6 {
                let (x, c, d, e) = (rest[0], rest[1], rest[2], rest[3]);
                let nf = cx.rng.range(11, 25);
                recs = (0..nf).map(|i| (3000 + i, s(&[p, q, x, rest[4 + i % (rest.len() - 4)]]), 5 * i + 3)).collect();
                recs.push((1, s(&[p, q, c, d]), 1));
                recs.push((2, s(&[q, p, c, d, e]), 2));
                cx.rng.shuffle(&mut recs);
                limit = (recs.len() + 9) / 10;
                let mut st0 = St::sentinel(lang, 1);
                for r in &recs {
                    st0.add(r);
                }
                let _ = st0.search(&s(&[p, q, x]));
                st0.store.limit = limit;
                planted = Some(s(&[q, p, c, d]));
                staged = false;
                cx.count("stores whose past holds an over-cap search that left a gram-free fuzzy match behind");
                // (this store replaces the plain one below)
                planted_store = Some(st0);
            }
        }
        set_record_langs(&[]);
        let mut foreign_twin: Option<(usize, &'static str)> = None;
        if planted_store.is_none() && (cx.idx / 12) % 6 == 4 {
            // one store in six holds a record twice: the second copy (other id, other rating) was prepared by the caller with
            // ANOTHER language than the store's - same letters, other character classes, perhaps another stem - and stands right
            // behind or right before its twin. A record's place depends on the record and the query, not on its neighbour.
            let k = cx.rng.below(recs.len());
            let tl: &'static str = if base_lang(lang) == "none" || lang == "xs" { *cx.rng.pick(&["en", "de", "ru", "fr"]) } else { *cx.rng.pick(&["none", "none", "xs", "en", "ru"]) };
            if tl != lang {
                let mut id = recs.iter().map(|r| r.0).max().unwrap_or(0).wrapping_add(1);
                while recs.iter().any(|r| r.0 == id) {
                    id = id.wrapping_add(1);
                }
                let mut rating = recs[k].2 ^ 1;
                while recs.iter().any(|r| r.2 == rating) {
                    rating = rating.wrapping_add(2);
                }
                let twin: Rec = (id, recs[k].1.clone(), rating);
                let at = if cx.rng.chance(1, 2) { k } else { k + 1 };
                recs.insert(at, twin);
                limit = limit.max((recs.len() + 9) / 10);
                foreign_twin = Some((id, tl));
                set_record_langs(&[(id, tl)]);
                cx.count("stores holding a record twice, the second copy prepared by another language");
            }
        }
        let n = recs.len();
        let st = if let Some(st0) = planted_store.take() { st0 } else if staged { build_staged(cx, lang, &recs, limit, "") } else { St::build_sentinel(lang, &recs, limit) };
        let unl = St::build_sentinel(lang, &recs, n + 1);
        let other: Option<St> = if cx.rng.chance(1, 3) {
            cx.count("stores shadowed by a store of another language on the same thread");
            Some(St::build_sentinel(LANGS[((cx.idx + 5) % NL) as usize], &recs, limit))
        } else {
            None
        };
        for qk in 0..3 {
            let q = if similar { similar_query(&mut cx.rng, lang, &family) } else { rank_query(&mut cx.rng, lang, &st.store.lang, &recs) };
            // a store with a past is asked the empty query first (the list its past searches may have cached), then a
            // spelling with the first two letters swapped (it matches short words without sharing a gram with them)
            let q = if staged && qk == 0 {
                String::new()
            } else if let (Some(pq), true) = (&planted, qk <= 1) {
                pq.clone()
            } else if staged && qk == 1 {
                let mut w: Vec<char> = recs[cx.rng.below(recs.len())].1.split(|c: char| !c.is_alphanumeric()).next().unwrap_or("ab").chars().collect();
                if w.len() >= 2 {
                    w.swap(0, 1);
                }
                s(&w)
            } else {
                q
            };
            cx.ctx(format!("C07 lang={} recs={:?} limit={} q={:?}{}", lang, recs, limit, q, foreign_twin.map(|(id, l)| format!(" (record {} was prepared by language {})", id, l)).unwrap_or_default()));
            if let Some(o) = &other {
                // the same records and query under another language, on this thread, right before the judged search
                let _ = o.search(&q);
            }
            let base = st.search(&q);
            let all = unl.search(&q);
            let apart = cx.rng.chance(1, 8);
            if apart {
                cx.count("configurations whose reference stores live on threads of their own");
            }
            // pairwise: the first three hits plus up to three more positions anywhere in the unlimited list
            let mut pos: Vec<usize> = (0..all.len().min(3)).collect();
            for _ in 0..3 {
                if all.len() > 3 {
                    let p = cx.rng.range(3, all.len() - 1);
                    if !pos.contains(&p) {
                        pos.push(p);
                    }
                }
            }
            pos.sort();
            if pos.iter().any(|p| *p >= 6) {
                cx.count("pairs involving a hit ranked 7th or lower");
            }
            for (ai, &i) in pos.iter().enumerate() {
                for &j in pos.iter().skip(ai + 1) {
                    let ri = recs.iter().find(|r| r.0 == all[i].0).unwrap().clone();
                    let rj = recs.iter().find(|r| r.0 == all[j].0).unwrap().clone();
                    for ord in 0..2 {
                        let two = if ord == 0 { vec![ri.clone(), rj.clone()] } else { vec![rj.clone(), ri.clone()] };
                        if let Some(o) = &other {
                            let _ = o.search(&q);
                        }
                        let h: Vec<usize> = if apart {
                            let (t2, q2) = (two.clone(), q.clone());
                            on_new_thread(move || St::build_sentinel(lang, &t2, 10).search_ids(&q2))
                        } else {
                            St::build_sentinel(lang, &two, 10).search_ids(&q)
                        };
                        cx.eval();
                        cx.count("pair stores");
                        if h != vec![ri.0, rj.0] {
                            cx.fail("pair-order-differs", json!({"lang": lang, "query": q, "first_in_full_store": ri, "second_in_full_store": rj, "pair_inserted": two, "pair_result": h, "full_store": recs}));
                        }
                    }
                }
            }
            // insertion permutations
            for p in 0..4 {
                let mut perm = recs.clone();
                if p == 0 {
                    perm.reverse();
                } else {
                    cx.rng.shuffle(&mut perm);
                }
                let ps = St::build_sentinel(lang, &perm, limit);
                let h = ps.search(&q);
                cx.eval();
                cx.count("permuted stores");
                if h != base {
                    cx.fail("insertion-order-changes-result", json!({"lang": lang, "query": q, "limit": limit, "records": recs, "permuted": perm, "result": base, "permuted_result": h}));
                }
            }
            if base.len() >= 2 {
                cx.key(hparts(&[lang, &format!("{:?}", recs), &q]));
                cx.count("searches with >= 2 hits");
                if all.len() > limit {
                    cx.count("truncated lists compared across permutations");
                }
                if cx.want_sample() {
                    cx.sample(|| json!({"lang": lang, "records": recs.len(), "limit": limit, "query": q, "order": base.iter().map(|h| h.0).collect::<Vec<_>>()}));
                }
            }
        }
        set_record_langs(&[]);
    }

    fn rules(&self, cx: &mut Cx, lang: &'static str) {
        let (a1, a2, a3): (Vec<char>, Vec<char>, Vec<char>) = if lang == "ru" {
            (cv("абвгдежз"), cv("иклмнопр"), cv("стуфхцчш"))
        } else {
            (cv("abcdefgh"), cv("ijklmnop"), cv("qrstuvwz"))
        };
        let mut u = gen::rand_word(&mut cx.rng, &a1, 5, 9);
        if cx.rng.chance(1, 4) {
            // an inflected-looking u: random stem + an ending the language's stemmer strips
            let suf = *cx.rng.pick(&gen::suffixes(lang));
            if suf.chars().all(|c| !a2.contains(&c) && !a3.contains(&c)) {
                u = format!("{}{}", gen::rand_word(&mut cx.rng, &a1, 3, 5), suf);
                cx.count("u with an inflectional ending");
            }
        }
        let v = gen::rand_word(&mut cx.rng, &a2, 5, 9);
        let x = gen::rand_word(&mut cx.rng, &a3, 3, 8);
        // "non-function word" is decided by the frozen list, not by the build under test
        let listed = crate::oracle::listed_function_words(lang);
        let is_plain = |w: &str| with_lang(lang, |l| gen::tok_record(l, w).words.len() == 1) && !listed.contains(&crate::oracle::norm_word(lang, w));
        let mut u = u;
        let (mut a2, mut a3) = (a2, a3);
        if !listed.is_empty() && cx.rng.chance(1, 6) {
            // a content word that happens to be two function words run together ("dasein", "conde", "никак")
            let parts: Vec<&String> = listed.iter().filter(|w| w.chars().count() >= 2 && w.chars().all(|c| c.is_alphabetic())).collect();
            if parts.len() >= 2 {
                let cand = format!("{}{}", cx.rng.pick(&parts), cx.rng.pick(&parts));
                let n = cand.chars().count();
                let b2: Vec<char> = a2.iter().cloned().filter(|c| !cand.contains(*c)).collect();
                let b3: Vec<char> = a3.iter().cloned().filter(|c| !cand.contains(*c)).collect();
                if n >= 4 && n <= 12 && !listed.contains(&cand) && b2.len() >= 4 && b3.len() >= 4 {
                    u = cand;
                    a2 = b2;
                    a3 = b3;
                    cx.count("u made of two function words run together");
                }
            }
        }
        if lang == "xc" && cx.rng.chance(1, 3) {
            // a word the language tags as pronoun / interjection / noun / verb / adjective / adverb: none of these is a
            // function-word kind, so every rule applies to it as to any other word
            let cand = cx.rng.pick(&XC_TAGGED_CONTENT).0.to_string();
            let all: Vec<char> = cv("abcdefghijklmnopqrstuvwxyz").into_iter().filter(|c| !cand.contains(*c)).collect();
            u = cand;
            a2 = all[..all.len() / 2].to_vec();
            a3 = all[all.len() / 2..].to_vec();
            cx.count("u tagged with a part of speech that is not a function-word kind");
        }
        let v = if a2.len() < 8 || lang == "xc" { gen::rand_word(&mut cx.rng, &a2, 5, 9) } else { v };
        let x = if a3.len() < 8 || lang == "xc" { gen::rand_word(&mut cx.rng, &a3, 3, 8) } else { x };
        if with_lang(lang, |l| { let t = gen::tok_record(l, &u); t.words.len() == 1 && t.words[0].is_function() }) && !listed.contains(&crate::oracle::norm_word(lang, &u)) {
            cx.count("build treats an unlisted word as a function word");
        }
        if is_plain(&u) && is_plain(&v) && is_plain(&x) {
            let mut pairs: Vec<(&'static str, String, String, String)> = vec![]; // (rule, query, better, worse)
            let uc = cv(&u);
            let pos = if cx.rng.chance(1, 3) { uc.len() - 1 - cx.rng.below(2) } else { cx.rng.below(uc.len()) };
            let mut ut = uc.clone();
            match cx.rng.below(4) {
                0 => {
                    let mut c = *cx.rng.pick(&a1);
                    while c == ut[pos] {
                        c = *cx.rng.pick(&a1);
                    }
                    ut[pos] = c;
                }
                1 => ut.insert(pos, *cx.rng.pick(&a1)),
                2 => {
                    ut.remove(pos);
                }
                _ => {
                    if pos + 1 < ut.len() && ut[pos] != ut[pos + 1] {
                        ut.swap(pos, pos + 1);
                    } else {
                        ut.remove(pos);
                    }
                }
            }
            let ut = s(&ut);
            // "the same word with a typo" must still be a different word after normalisation
            // (e.g. swapping 'é' and 'e' in a French word is no typo at all)
            let norm = |w: &str| with_lang(lang, |l| gen::tok_record(l, w).chars);
            if ut != u && norm(&ut) != norm(&u) {
                pairs.push(("exact>typo", u.clone(), u.clone(), ut.clone()));
                pairs.push(("exact>typo (with filler)", u.clone(), format!("{} {}", u, x), format!("{} {}", ut, x)));
            }
            pairs.push(("both>one", format!("{} {}", u, v), format!("{} {}", u, v), u.clone()));
            pairs.push(("both>one (other word)", format!("{} {}", u, v), format!("{} {}", u, v), format!("{} {}", v, x)));
            pairs.push(("both>one (reversed query)", format!("{} {}", v, u), format!("{} {}", u, v), format!("{} {}", x, v)));
            // "extra trailing letters": mostly 1-3, sometimes up to 12, sometimes enough to pass 20 / 64 letters in all
            let tail = match cx.rng.below(8) {
                0 => gen::rand_word(&mut cx.rng, &a1, 4, 12),
                1 => {
                    cx.count("tails of 13-70 letters");
                    gen::rand_word(&mut cx.rng, &a1, 13, 70)
                }
                _ => gen::rand_word(&mut cx.rng, &a1, 1, 3),
            };
            pairs.push(("exact>tail", u.clone(), u.clone(), format!("{}{}", u, tail)));
            let pl = cx.rng.range(1, uc.len());
            pairs.push(("prefix: exact>tail", s(&uc[..pl]), u.clone(), format!("{}{}", u, tail)));
            pairs.push(("adjacent>gap", format!("{} {}", u, v), format!("{} {} {}", u, v, x), format!("{} {} {}", u, x, v)));
            pairs.push(("first>second", u.clone(), format!("{} {}", u, x), format!("{} {}", x, u)));
            for (rule, q, better, worse) in pairs {
                if cx.rng.chance(1, 6) {
                    self.rule_crowd_case(cx, lang, rule, &q, &better, &worse);
                }
                for order in 0..2 {
                    for rmode in 0..2 {
                        let special = [0usize, 1, 255, 256, 65535, 65536, (1 << 24) - 1, 1 << 24, 1 << 30, (1usize << 31) - 1];
                        let (rb, rw) = match (rmode, cx.rng.below(4)) {
                            (0, 0) => (0, *cx.rng.pick(&special)),
                            (1, 0) => (*cx.rng.pick(&special), 0),
                            (0, _) => (cx.rng.below(1000), cx.rng.below(1usize << 31)),
                            _ => (cx.rng.below(1usize << 31), cx.rng.below(1000)),
                        };
                        self.rule_case(cx, lang, rule, &q, &better, &worse, rb, rw, order);
                    }
                }
            }
            // identical titles: higher rating first; equal rating: 'u' before 'u x'
            for order in 0..2 {
                // far apart, adjacent at every magnitude, or both small
                let (r1, r2) = match cx.rng.below(4) {
                    0 => (cx.rng.below(1usize << 31), cx.rng.below(1usize << 31)),
                    1 => {
                        let r = cx.rng.below((1usize << 31) - 1);
                        (r, r + 1)
                    }
                    2 => {
                        let bits = cx.rng.range(1, 30);
                        let r = cx.rng.below(1usize << bits);
                        (r, r + cx.rng.range(1, 3))
                    }
                    _ => (cx.rng.below(2000), cx.rng.below(2000)),
                };
                if r1 != r2 {
                    if r1.max(r2) - r1.min(r2) <= 3 {
                        cx.count("identical titles with ratings 1-3 apart");
                    }
                    let (hi, lo) = (r1.max(r2), r1.min(r2));
                    let q = if cx.rng.chance(1, 2) { u.clone() } else { s(&uc[..cx.rng.range(1, uc.len())]) };
                    let t = if cx.rng.chance(1, 2) { u.clone() } else { format!("{} {}", u, x) };
                    self.rule_case(cx, lang, "identical titles: rating decides", &q, &t, &t, hi, lo, order);
                }
                let r = cx.rng.below(1usize << 31);
                self.rule_case(cx, lang, "equal rating: shorter title first", &u, &u, &format!("{} {}", u, x), r, r, order);
                // the last two rules name no query: they are also judged by the empty query (which lists records by rating, then
                // title), on a store that answered the empty query while the better record was not there yet
                let mut r2 = Rng::new(mix(cx.idx, 0xc08 + order as u64));
                if order == 0 {
                    self.rule_empty_query_case(cx, &mut r2, lang, "equal rating: shorter title first (empty query)", &u, &format!("{} {}", u, x), r, r);
                } else {
                    let t = if r2.chance(1, 2) { u.clone() } else { format!("{} {}", u, x) };
                    let lo = r2.below((1usize << 31) - 4);
                    let hi = lo + r2.range(1, 3);
                    self.rule_empty_query_case(cx, &mut r2, lang, "identical titles: rating decides (empty query)", &t, &t, hi, lo);
                }
            }
        } else {
            cx.count("word triple rejected (function word)");
        }
        // function-word rule
        let fws = function_words(lang);
        if fws.is_empty() {
            return;
        }
        let alpha_all = if lang == "ru" { cv("бгджзклмпрстфхцчш") } else { cv("bcdfghjklmnpqrstvwxz") };
        for _ in 0..3 {
            let f = *cx.rng.pick(&fws);
            cx.count("function words tried");
            let recognised = with_lang(lang, |l| {
                let t = gen::tok_record(l, f);
                t.words.len() == 1 && t.words[0].is_function()
            });
            if !recognised {
                // the frozen list is the specification: the rule is evaluated anyway, so a build that
                // stops recognising a listed word fails the rule instead of silently skipping it
                cx.count("function words not recognised by this build");
            } else {
                cx.count("function words recognised");
            }
            let fchars: BTreeSet<char> = with_lang(lang, |l| gen::tok_record(l, f).chars.iter().cloned().collect());
            let alpha: Vec<char> = alpha_all.iter().cloned().filter(|c| !fchars.contains(c) && !f.contains(*c)).collect();
            // "content word f + suffix": the suffix is a run of consonants, or - one time in three - an ending of the kind the
            // language's stemmer strips (plural / case endings, single letters): "ifs", "nache", "нады"
            let suffix = if cx.rng.chance(1, 3) {
                let mut ends: Vec<String> = gen::suffixes(lang).iter().map(|x| x.to_string()).collect();
                ends.extend(["s", "e", "n", "es", "en", "st", "ns", "y"].iter().map(|x| x.to_string()));
                if lang == "ru" {
                    ends = vec!["ы".into(), "и".into(), "а".into(), "ов".into(), "ами".into(), "ой".into()];
                }
                cx.count("content words made of a function word and an inflectional ending");
                cx.rng.pick(&ends).clone()
            } else {
                gen::rand_word(&mut cx.rng, &alpha, 2, 6)
            };
            let content = format!("{}{}", f, suffix);
            // what a content word is, is decided by the frozen tables, never by the build under test: one word, not listed
            let one_word = with_lang(lang, |l| gen::tok_record(l, &content).words.len() == 1);
            let listed_all = crate::oracle::listed_function_words(lang);
            if !one_word || listed_all.contains(&crate::oracle::norm_word(lang, &content)) || crate::oracle::norm_word(lang, &content) == crate::oracle::norm_word(lang, f) {
                cx.count("content word rejected");
                continue;
            }
            let x = gen::rand_word(&mut cx.rng, &alpha, 4, 4);
            let better = if cx.rng.chance(1, 2) { content.clone() } else { format!("{} {}", x, content) };
            let worse = if cx.rng.chance(1, 2) { format!("{} {}", f, x) } else { format!("{} {}", x, f) };
            for order in 0..2 {
                for rmode in 0..2 {
                    let (rb, rw) = if rmode == 0 { (cx.rng.below(100), 1000 + cx.rng.below(1usize << 30)) } else { (1000 + cx.rng.below(1usize << 30), cx.rng.below(100)) };
                    self.rule_case(cx, lang, "function word: content word first", f, &better, &worse, rb, rw, order);
                }
            }
        }
    }

    /// The same rule on a store that holds each of the two titles several times (other ids, other ratings), under a
    /// limit smaller than the store: every copy of the better title outranks every copy of the worse one, so the list
    /// starts with min(limit, copies) better ones.
    fn rule_crowd_case(&self, cx: &mut Cx, lang: &'static str, rule: &str, q: &str, better: &str, worse: &str) {
        let nb = cx.rng.range(2, 12);
        let nw = cx.rng.range(4, 30);
        // (never more than ten times the limit: beyond that the library does not promise to look at every record)
        let limit = (*cx.rng.pick(&[1usize, 2, 3, 5, 10])).max((nb + nw + 9) / 10);
        let mut recs: Vec<Rec> = vec![];
        for i in 0..nb {
            recs.push((1 + i, better.to_string(), cx.rng.below(1usize << 31)));
        }
        for i in 0..nw {
            recs.push((1000 + i, worse.to_string(), cx.rng.below(1usize << 31)));
        }
        cx.rng.shuffle(&mut recs);
        cx.ctx(format!("C08 crowd {} lang={} q={:?} better={:?} x{} worse={:?} x{} limit={}", rule, lang, q, better, nb, worse, nw, limit));
        let st = St::build_sentinel(lang, &recs, limit);
        let got = st.search_ids(q);
        cx.eval();
        cx.count("rule cases on stores with several copies of both titles");
        let want = limit.min(nb);
        let lead = got.iter().take_while(|id| **id < 1000).count();
        if lead < want {
            cx.fail_sig(
                "ranking-rule",
                format!("ranking-rule:{}", rule.replace(' ', "_")),
                json!({"rule": rule, "lang": lang, "query": q, "better_title": better, "copies_of_better": nb, "worse_title": worse, "copies_of_worse": nw, "limit": limit,
                       "records": recs, "got_ids": got, "why": format!("the list should start with {} copies of the better title (ids below 1000), it starts with {}", want, lead)}),
            );
        }
    }

    /// 'worse' (and sometimes a better-rated bystander) first, the empty query under a limit that the store already fills,
    /// then 'better', then the empty query again: 'better' precedes 'worse' (or 'worse' is no longer listed).
    fn rule_empty_query_case(&self, cx: &mut Cx, rng: &mut Rng, lang: &'static str, rule: &str, better: &str, worse: &str, rb: usize, rw: usize) {
        let bystander = rng.chance(1, 2);
        let limit = if bystander { *rng.pick(&[2usize, 2, 3, 10]) } else { *rng.pick(&[1usize, 1, 2, 10]) };
        let mut st = St::sentinel(lang, limit);
        let mut recs: Vec<Rec> = vec![];
        if bystander {
            recs.push((3, format!("y{}", rng.below(10)), (rw.max(rb) + 1 + rng.below(5)).min((1usize << 31) - 1)));
        }
        recs.push((2, worse.to_string(), rw));
        for r in &recs {
            st.add(r);
        }
        let q1 = *rng.pick(&["", " ", "-"]);
        cx.ctx(format!("C08 {} lang={} recs={:?} limit={} q={:?} (before the better record arrives)", rule, lang, recs, limit, q1));
        let before = st.search_ids(q1);
        let b: Rec = (1, better.to_string(), rb);
        st.add(&b);
        recs.push(b);
        let q2 = *rng.pick(&["", " ", "-"]);
        cx.ctx(format!("C08 {} lang={} recs={:?} limit={} q={:?}", rule, lang, recs, limit, q2));
        let got = st.search(q2);
        cx.eval();
        cx.count(&format!("rule {}", rule));
        cx.count("rules judged by the empty query on a store that answered it before the better record arrived");
        cx.key(hparts(&[lang, rule, better, worse, &limit.to_string()]));
        if !crate::oracle::outranks(&got, 1, 2) || !got.iter().any(|h| h.0 == 1) {
            cx.fail_sig(
                "ranking-rule",
                format!("ranking-rule:{}", rule.replace(' ', "_")),
                json!({"rule": rule, "lang": lang, "query": q2, "records_in_insertion_order": recs, "limit": limit, "expected_first_id": 1, "got": got,
                       "history": format!("the empty query {:?} was answered ({:?}) before record 1 was added", q1, before)}),
            );
        }
    }

    fn rule_case(&self, cx: &mut Cx, lang: &'static str, rule: &str, q: &str, better: &str, worse: &str, rb: usize, rw: usize, order: usize) {
        let mut recs: Vec<Rec> = if order == 0 { vec![(1, better.to_string(), rb), (2, worse.to_string(), rw)] } else { vec![(2, worse.to_string(), rw), (1, better.to_string(), rb)] };
        if cx.rng.chance(1, 4) {
            // a bystander: a third, unrelated record with an extreme rating must not change the order of the two
            let alpha = if lang == "ru" { cv("щыэюя") } else { cv("y") };
            let t = format!("{}{}", gen::rand_word(&mut cx.rng, &alpha, 3, 6), cx.rng.below(10));
            let r = *cx.rng.pick(&[(1usize << 31) - 1, 2_000_000_000, 0, 1 << 30]);
            let at = cx.rng.below(3);
            recs.insert(at.min(recs.len()), (3, t, r));
            cx.count("rule cases with a third, unrelated record");
        }
        cx.ctx(format!("C08 {} lang={} q={:?} recs={:?}", rule, lang, q, recs));
        let st = St::build_sentinel(lang, &recs, 10);
        let got = st.search(q);
        cx.eval();
        cx.count(&format!("rule {}", rule));
        cx.key(hparts(&[lang, rule, q, better, worse]));
        if !crate::oracle::outranks(&got, 1, 2) {
            cx.fail_sig(
                "ranking-rule",
                format!("ranking-rule:{}", rule.replace(' ', "_")),
                json!({"rule": rule, "lang": lang, "query": q, "records": recs, "expected_first_id": 1, "got": got}),
            );
        } else if cx.want_sample() && cx.rng.chance(1, 40) {
            cx.sample(|| json!({"rule": rule, "lang": lang, "query": q, "records": recs, "got_ids": got.iter().map(|h| h.0).collect::<Vec<_>>()}));
        }
    }

    /// More than 2^18 (every fourth time: 2^19) records with pairwise distinct ratings and a limit above 2^17: the list is
    /// exactly the `limit` best-rated ids in order - before and after three further records arrive at the top.
    fn empty_huge(&self, cx: &mut Cx, lang: &'static str) {
        if cx.tier == Tier::Miri {
            return;
        }
        let n = if cx.idx % 4 == 3 { (1usize << 19) + cx.rng.range(1, 20_000) } else { (1usize << 18) + cx.rng.range(1, 40_000) };
        let mut ratings: Vec<usize> = (0..n).map(|i| i * 3 + 1).collect();
        cx.rng.shuffle(&mut ratings);
        let limit = *cx.rng.pick(&[131_073usize, 140_000, 200_000, n / 2, n / 2 + 1, n - 1, n, n + 2]);
        let mut st = St::sentinel(lang, limit);
        let titles = ["", "x", "ab", "-", "7"];
        for i in 0..n {
            st.add(&(i, titles[i % titles.len()].to_string(), ratings[i]));
        }
        for round in 0..2 {
            if round == 1 {
                for k in 0..3 {
                    ratings.push(3 * n + 10 + k);
                    st.add(&(n + k, "top".to_string(), 3 * n + 10 + k));
                }
            }
            let total = ratings.len();
            let q = *cx.rng.pick(&["", " ", "-"]);
            cx.ctx(format!("C12 huge lang={} records={} limit={} q={:?} round={}", lang, total, limit, q, round));
            let got = st.search_ids(q);
            cx.eval();
            cx.count("empty-query lists of stores with more than 2^18 records under a limit above 2^17");
            let mut want: Vec<usize> = (0..total).collect();
            want.sort_by(|a, b| ratings[*b].cmp(&ratings[*a]));
            want.truncate(limit);
            if got != want {
                let at = got.iter().zip(want.iter()).position(|(a, b)| a != b).unwrap_or(got.len().min(want.len()));
                cx.fail("empty-query-list", json!({"lang": lang, "records": format!("{} records, id i has a rating of its own (a shuffle of 1, 4, 7, ...)", total), "limit": limit, "query": q, "round": round,
                    "errors": [format!("length {} (expected {}); first difference at position {}: got id {:?}, expected id {:?}", got.len(), want.len(), at, got.get(at), want.get(at))]}));
                return;
            }
        }
        cx.key(hparts(&[lang, &n.to_string(), &limit.to_string(), "huge"]));
    }

    fn empty(&self, cx: &mut Cx, lang: &'static str) {
        let ordinary: [&str; 23] = ["metal", "mailbox", "b", "a", "aa", "ab", "Zed", "für", "élan", "Ёж", "éclair", "e\u{301}clair", "zz", "straße", "strasse",
            "𠮷野家", "吉野家", "𐌰𐌱", "🎁x", "ﬁx", "ab𝐀", "abc𠮷", "abcd"];
        // one store in eight draws its titles from spellings that differ in where a U+0000 (or another control character) sits:
        // U+0000 is the smallest code point and counts in the code-point order of the normalised title like any other character
        let with_nul: [&str; 14] = ["a\0b", "aab", "ab", "a\0", "a", "a\0\0b", "aa", "a\0a", "\0a", "b\0", "a b", "a\u{1}b", "a\0 b", "a\tb"];
        let nul_titles = (cx.idx / 12) % 8 == 5;
        if nul_titles {
            cx.count("stores whose titles differ in where a U+0000 sits");
        }
        let words: &[&str] = if nul_titles { &with_nul } else { &ordinary };
        let n = match cx.rng.below(60) {
            0 => *cx.rng.pick(&[200usize, 257, 300, 600, 1200]),
            1..=10 => cx.rng.range(13, 60),
            _ => cx.rng.below(13),
        };
        let rating_scale = *cx.rng.pick(&[1usize, 1, 1, 65536, 1 << 24, ((1usize << 31) - 1) / 2000]);
        // adjacent ratings at a high magnitude (where narrower number types can no longer tell them apart)
        let rating_offset = if rating_scale == 1 && cx.rng.chance(1, 4) {
            cx.count("stores with adjacent ratings above 2^24");
            *cx.rng.pick(&[1usize << 24, (1 << 30) + 1, (1usize << 31) - 1 - 3 * 1300, (1usize << 32) - 5000, (1 << 53) + 1, (1 << 62) + 7, (1usize << 63) - 5000])
        } else {
            0
        };
        if n > 12 {
            cx.count("stores of 13-60 records");
        }
        let distinct = cx.rng.chance(1, 3);
        let long_prefix = cx.rng.chance(1, 6);
        if long_prefix {
            cx.count("stores whose titles share a prefix of 20-40 characters");
        }
        let common: String = if long_prefix { format!("{} ", gen::rand_word(&mut cx.rng, &gen::lower_alphabet(lang), 20, 40)) } else { String::new() };
        let mk = |rng: &mut Rng, i: usize| -> Rec {
            // one title in six starts with characters that belong to no word (they count in the code-point order of the title)
            let lead = if rng.chance(1, 6) { *rng.pick(&[" ", "'", "(", "- ", "\u{bf}", "\"", "#", "\u{2026}", "  "]) } else { "" };
            // ... and one in six ends with such characters (a title and its whitespace-extended twin are different titles)
            let trail = if rng.chance(1, 6) { *rng.pick(&[" ", "  ", "\t", "\n", " .", "!"]) } else { "" };
            let t = format!("{}{}{}{}{}{}", lead, common, rng.pick(words), if rng.chance(1, 2) { " " } else { "" }, if rng.chance(1, 2) { *rng.pick(words) } else { "" }, trail);
            // one title in twelve has no word at all (it still has a place in the code-point order of titles)
            let t = if rng.chance(1, 12) { rng.pick(&["", "---", "!!!", " ", "...", "-", "(", "--- !!!"]).to_string() } else { t };
            (i, t, (if distinct { i * 3 + rng.below(3) } else { rng.below(3) }) * rating_scale + rating_offset)
        };
        let mut recs: Vec<Rec> = (0..n).map(|i| mk(&mut cx.rng, i)).collect();
        cx.rng.shuffle(&mut recs);
        let mut limit = cx.rng.below(n + 3);
        let limit0 = limit;
        let mut st = St::build_sentinel(lang, &recs, limit);
        let rounds = cx.rng.range(1, 3);
        let relimit = cx.rng.chance(1, 3);
        for round in 0..rounds {
            // limit changes between two empty-query searches (up, and back to the first value), before or after the adds
            let limit_first = cx.rng.chance(1, 2);
            if round > 0 && relimit && limit_first {
                limit = if round == 1 { limit0 + cx.rng.range(1, 3) } else { limit0 };
                st.store.limit = limit;
                cx.count("searches after a limit change");
            }
            // a dip: the limit is lowered for the adds only and is back at its value before the next search
            let dip = round > 0 && !relimit && cx.rng.chance(1, 3);
            if dip {
                st.store.limit = cx.rng.below(limit + 1);
                cx.count("adds under a temporarily lowered limit");
            }
            if round > 0 {
                // history part: further adds on the same store
                for _ in 0..cx.rng.range(1, 3) {
                    let r = mk(&mut cx.rng, recs.len());
                    st.add(&r);
                    recs.push(r);
                }
                cx.count("searches after further adds");
            }
            if dip {
                st.store.limit = limit;
            }
            if cx.rng.chance(1, 3) {
                // a search with words in between changes neither the records nor the limit
                let w = *cx.rng.pick(words);
                let _ = st.search(w);
                if cx.rng.chance(1, 2) {
                    let _ = st.search(&w.chars().take(1).collect::<String>());
                }
                cx.count("empty-query searches right after a search with words");
            }
            if round > 0 && relimit && !limit_first {
                limit = if round == 1 { limit0 + cx.rng.range(1, 3) } else { limit0 };
                st.store.limit = limit;
                cx.count("searches after a limit change");
            }
            let q = *cx.rng.pick(&["", " ", "-", "...", "\t!", "\u{a0}", "'", "\0", "\u{301}"]);
            cx.ctx(format!("C12 lang={} recs={:?} limit={} q={:?}", lang, recs, limit, q));
            let got = st.search(q);
            cx.eval();
            let n = recs.len();
            let mut errs = empty_query_errors(&st, &recs, limit, &got, distinct);
            if distinct {
                cx.count("stores with distinct ratings");
            } else if got.len() < n {
                cx.count("truncated lists with tied ratings");
            }
            if errs.is_empty() && cx.rng.chance(1, 6) {
                // the same records, limit and query through the top-level registry (what the JS wrapper calls): the limit
                // arrives through set_limit or through the store handed out by using_store (sometimes raising an earlier
                // set_limit), before or after the records; the records through add_record or prepared by the caller
                let id = (cx.idx as usize + 7_000_000) * 2 + round;
                let how = cx.rng.below(3);
                let limit_first = cx.rng.chance(1, 2);
                let mut hist = vec![format!("create({}, {})", id, lang)];
                create_store(id, take_lang(lang));
                highlight_with(id, (&S1.to_string(), &S2.to_string()));
                let set = |hist: &mut Vec<String>, rng: &mut Rng| match how {
                    0 => {
                        hist.push(format!("set_limit({})", limit));
                        set_limit(id, limit);
                    }
                    1 => {
                        hist.push(format!("using_store(|s| s.limit = {})", limit));
                        using_store(id, |s| s.limit = limit);
                    }
                    _ => {
                        let first = rng.below(limit + 1);
                        hist.push(format!("set_limit({}), using_store(|s| s.limit = {})", first, limit));
                        set_limit(id, first);
                        using_store(id, |s| s.limit = limit);
                    }
                };
                if limit_first {
                    set(&mut hist, &mut cx.rng);
                }
                for r in &recs {
                    if cx.rng.chance(1, 4) {
                        let (rid, t, ra) = (r.0, r.1.clone(), r.2);
                        using_store(id, |s| {
                            let rec = Record::new(rid, &t, ra, &s.lang);
                            s.add(rec);
                        });
                    } else {
                        add_record(id, r.0, &r.1, r.2);
                    }
                }
                hist.push(format!("{} records added", recs.len()));
                if !limit_first {
                    set(&mut hist, &mut cx.rng);
                }
                run_search(id, q);
                let got_r: Hits = using_results(id, |b| b.iter().map(|r| (r.id, r.title.clone())).collect());
                // ... and once more after the store was emptied in place: no records, no list (whatever was listed before)
                using_store(id, |s| s.clear());
                run_search(id, q);
                let got_emptied: Hits = using_results(id, |b| b.iter().map(|r| (r.id, r.title.clone())).collect());
                destroy_store(id);
                cx.eval();
                if !got_emptied.is_empty() {
                    hist.push("using_store(|s| s.clear())".to_string());
                    cx.fail("empty-query-list", json!({"lang": lang, "records": Vec::<Rec>::new(), "limit": limit, "query": q, "got": got_emptied, "errors": [format!("length {} != min(limit, records) = 0", got_emptied.len())], "round": round,
                        "through_the_registry": hist, "note": "the store was emptied in place (Store::clear through using_store) right before this search"}));
                    return;
                }
                cx.count("empty-query lists read through the registry");
                if how > 0 {
                    cx.count("registry stores whose limit was written through using_store");
                }
                errs = empty_query_errors(&st, &recs, limit, &got_r, distinct);
                if !errs.is_empty() {
                    cx.fail("empty-query-list", json!({"lang": lang, "records": recs, "limit": limit, "query": q, "got": got_r, "errors": errs, "round": round, "through_the_registry": hist, "bare_store_list_was_right": true}));
                    return;
                }
            }
            if limit == 0 {
                cx.count("limit 0");
            }
            if limit > n {
                cx.count("limit above store size");
            }
            if n >= 2 {
                cx.key(hparts(&[lang, &format!("{:?}", recs), &limit.to_string(), q]));
            }
            if !errs.is_empty() {
                cx.fail("empty-query-list", json!({"lang": lang, "records": recs, "limit": limit, "query": q, "got": got, "errors": errs, "round": round}));
            } else if cx.want_sample() && n > limit && limit > 1 {
                cx.sample(|| json!({"lang": lang, "records": recs, "limit": limit, "query": q, "got_ids": got.iter().map(|h| h.0).collect::<Vec<_>>()}));
            }
        }
    }
}

/// C12's laws for one empty-query list `got` of a store holding `recs` under `limit`.
fn empty_query_errors(st: &St, recs: &[Rec], limit: usize, got: &Hits, distinct: bool) -> Vec<String> {
    let n = recs.len();
    let mut errs: Vec<String> = vec![];
    if got.len() != limit.min(n) {
        errs.push(format!("length {} != min(limit, records) = {}", got.len(), limit.min(n)));
    }
    let ids: BTreeSet<usize> = got.iter().map(|h| h.0).collect();
    if ids.len() != got.len() {
        errs.push("a record is listed twice".into());
    }
    if got.iter().any(|h| h.1.contains(S1) || h.1.contains(S2)) {
        errs.push("highlight in an empty-query hit".into());
    }
    if ids.iter().any(|id| *id >= n) {
        errs.push("unknown id".into());
    } else {
        let keys: std::collections::BTreeMap<usize, Vec<char>> = recs.iter().map(|r| (r.0, st.tok_record(&r.1).chars)).collect();
        let ratings_by_id: std::collections::BTreeMap<usize, usize> = recs.iter().map(|r| (r.0, r.2)).collect();
        let rating = |id: usize| ratings_by_id[&id];
        let key = |id: usize| &keys[&id];
        for w in got.windows(2) {
            if rating(w[0].0) < rating(w[1].0) {
                errs.push(format!("rating increases from id {} to id {}", w[0].0, w[1].0));
            }
        }
        for om in 0..n {
            if ids.contains(&om) {
                continue;
            }
            for li in &ids {
                if rating(om) > rating(*li) {
                    errs.push(format!("omitted id {} has a higher rating than listed id {}", om, li));
                }
                if rating(om) == rating(*li) && key(om) < key(*li) {
                    errs.push(format!("omitted id {} has the same rating and an earlier title than listed id {}", om, li));
                }
            }
        }
        if distinct {
            let mut model: Vec<usize> = (0..n).collect();
            model.sort_by(|a, b| rating(*b).cmp(&rating(*a)));
            model.truncate(limit);
            if got.iter().map(|h| h.0).collect::<Vec<_>>() != model {
                errs.push(format!("distinct ratings: expected order {:?}", model));
            }
        }
    }
    errs
}

/// Single-word function words (frozen list, DESIGN.md Appendix A).
pub fn function_words(lang: &str) -> Vec<&'static str> {
    if lang == "xd" {
        return function_words("de").into_iter().filter(|w| !w.contains('ß')).collect();
    }
    match base_lang(lang) {
        "en" => vec!["a", "an", "the", "to", "of", "in", "for", "and", "on", "at", "by", "or", "as", "if", "so", "from", "into", "but", "not"],
        "de" => vec!["der", "die", "das", "für", "zu", "an", "auf", "und", "mit", "in", "ja", "bloß", "während"],
        "es" => vec!["el", "la", "de", "y", "con", "para", "en", "un", "a", "o", "más", "próximo", "vía"],
        "fr" => vec!["le", "la", "de", "et", "à", "un", "une", "du", "des", "dans", "sur", "pour", "par", "après", "derrière", "malgré", "opposé", "ô"],
        "pt" => vec!["o", "a", "de", "e", "com", "para", "em", "um", "uma", "os", "as", "além", "até", "atrás", "próximo", "então", "porém"],
        "ru" => vec!["и", "в", "на", "с", "для", "не", "же", "по", "а", "но", "путём"],
        "xk" => vec!["の", "が"],
        "xr" => vec!["zu", "av", "på", "außer", "pe"],
        _ => vec![],
    }
}

impl Prop for Ranking {
    fn id(&self) -> &'static str {
        match self.0 {
            Which::Verdicts => "C06",
            Which::Order => "C07",
            Which::Rules => "C08",
            Which::Empty => "C12",
        }
    }
    fn rule(&self) -> &'static str {
        match self.0 {
            Which::Verdicts => "fresh stores of 1-65 records from a small repetitive vocabulary (many records match one query), limits 0..|store|+2, 3 queries each (empty, 1-2 letters, related, multi-word, typo); checks: <= limit hits, no id twice, every hit identical to the single hit of the one-record store; for |store| <= 10*limit: hits == first `limit` of the unlimited list (exact order with distinct ratings, set comparison with ties) and unlimited id set == records that hit alone. Non-trivial = search with >= 1 match; distinct by (language, store, query, limit)",
            Which::Order => "stores of 2-30 records with pairwise distinct ratings and |store| <= 10*limit; for the first 6 hits of the unlimited list every pair is re-run as a two-record store in both insertion orders; the whole store is re-built reversed and in 3 random orders and must return the identical list; one store in six holds a title twice, the second copy prepared with another language than the store's. Non-trivial = search with >= 2 hits; distinct by (language, store, query)",
            Which::Rules => "two-record stores, both insertion orders, ratings (low,high) and (high,low) from [0,2^31); words u, v (5-9 letters), filler x from pairwise disjoint alphabets, checked to be non-function words; rules: exact>typo, both>one, exact>tail (full word and prefix), adjacent>gap, first>second, identical titles by rating, equal rating shorter first (these two also by the empty query), function word f: f+suffix before a title containing f. A case is one (language, rule, query, better title, worse title)",
            Which::Empty => "stores of 0-12 records (ratings from {0,1,2} with many ties, or distinct), duplicate and accented titles, limits 0..n+2, separator-only queries, searched again after further adds on the same store; checks: length min(limit,n), no highlight, no id twice, ratings non-increasing, no omitted record better than a listed one (rating, then code-point order of the normalised title), exact order with distinct ratings. Distinct by (language, store, limit, query), non-trivial = store with >= 2 records",
        }
    }
    fn streams(&self) -> Vec<Stream> {
        match self.0 {
            Which::Verdicts => vec![Stream::new("stores", 6400, 320000), Stream::new("corpus", 48, 960), Stream::new("large", 800, 16000), Stream::new("huge", 8, 48)],
            Which::Order => vec![Stream::new("stores", 3200, 160000), Stream::new("large", 400, 8000)],
            Which::Rules => vec![Stream::new("rules", 8400, 420000)],
            Which::Empty => vec![Stream::new("stores", 32000, 1600000), Stream::new("huge", 2, 16)],
        }
    }
    fn floors(&self) -> Vec<(&'static str, u64, u64)> {
        match self.0 {
            Which::Verdicts => vec![("truncated (more matches than limit)", 200, 2000), ("beyond the 10x cap (soundness only)", 100, 1000), ("limit 0", 50, 500), ("selection buffer refilled (matches >= 2*limit)", 100, 1000), ("store with tied ratings (set comparison)", 50, 500), ("empty query", 50, 500), ("corpus-store searches", 100, 2000), ("corpus-store searches compared with the unlimited corpus store", 10, 200), ("large stores (limit 50-200)", 400, 8000), ("large stores whose match count is an exact multiple of the limit", 20, 400), ("stores of more than 2048 records", 8, 160), ("stores of 66-260 records", 300, 3000), ("stores built in stages with searches and limit changes in between", 3000, 30000), ("configurations whose reference stores live on threads of their own", 1500, 15000), ("stores of 33 000 - 140 000 records with one title", 8, 48), ("stores of exactly 10*limit records sharing one word", 100, 1000)],
            Which::Order => vec![("pair stores", 2000, 20000), ("permuted stores", 2000, 20000), ("searches with >= 2 hits", 300, 3000), ("truncated lists compared across permutations", 30, 300), ("stores of similar words", 500, 5000), ("pairs involving a hit ranked 7th or lower", 300, 3000), ("large stores (limit 50-200)", 200, 4000), ("stores of more than 2048 records", 4, 80), ("stores with ratings in [2^31, 2^32)", 200, 2000), ("stores with ratings spread over the whole usize range", 100, 1000), ("stores with pairs of ratings that differ in exactly one bit", 150, 1500), ("configurations whose reference stores live on threads of their own", 200, 2000), ("stores built in stages with searches and limit changes in between", 300, 3000), ("stores shadowed by a store of another language on the same thread", 500, 5000), ("stores whose past holds an over-cap search that left a gram-free fuzzy match behind", 50, 500), ("stores holding a record twice, the second copy prepared by another language", 100, 1000)],
            Which::Rules => vec![("rule exact>typo", 500, 5000), ("rule both>one", 500, 5000), ("rule prefix: exact>tail", 500, 5000), ("rule adjacent>gap", 500, 5000), ("rule first>second", 500, 5000), ("rule identical titles: rating decides", 300, 3000), ("rule equal rating: shorter title first", 300, 3000), ("rule function word: content word first", 1000, 10000), ("u made of two function words run together", 300, 3000), ("rule cases with a third, unrelated record", 20000, 200000), ("identical titles with ratings 1-3 apart", 1000, 10000), ("tails of 13-70 letters", 500, 5000), ("u tagged with a part of speech that is not a function-word kind", 150, 1500), ("rule cases on stores with several copies of both titles", 5000, 50000), ("rules judged by the empty query on a store that answered it before the better record arrived", 4000, 40000)],
            Which::Empty => vec![("searches after further adds", 1000, 10000), ("truncated lists with tied ratings", 500, 5000), ("stores with distinct ratings", 500, 5000), ("limit 0", 100, 1000), ("stores of 13-60 records", 1000, 10000), ("stores whose titles share a prefix of 20-40 characters", 1500, 15000), ("stores with adjacent ratings above 2^24", 1000, 10000), ("searches after a limit change", 1000, 10000), ("adds under a temporarily lowered limit", 1000, 10000), ("empty-query searches right after a search with words", 5000, 50000), ("empty-query lists read through the registry", 3000, 30000), ("registry stores whose limit was written through using_store", 2000, 20000), ("empty-query lists of stores with more than 2^18 records under a limit above 2^17", 4, 32), ("stores whose titles differ in where a U+0000 sits", 800, 8000)],
        }
    }
    fn ratios(&self) -> Vec<(&'static str, &'static str, f64, f64)> {
        match self.0 {
            Which::Rules => vec![("function words recognised", "function words tried", 0.8, 1.0)],
            _ => vec![],
        }
    }
    fn run(&self, cx: &mut Cx, stream: &str, idx: u64) {
        let lang = LANGS[(idx % NL) as usize];
        match self.0 {
            Which::Verdicts if stream == "large" => self.large_case(cx, lang, false),
            Which::Verdicts if stream == "huge" => self.huge_case(cx, lang),
            Which::Order if stream == "large" => self.large_case(cx, lang, true),
            Which::Verdicts if stream == "corpus" => self.verdicts_corpus(cx, if idx % 2 == 0 { "en" } else { "none" }),
            Which::Verdicts => self.verdicts(cx, lang),
            Which::Order => self.order(cx, lang),
            Which::Rules => self.rules(cx, lang),
            Which::Empty if stream == "huge" => self.empty_huge(cx, lang),
            Which::Empty => self.empty(cx, lang),
        }
    }
    fn assumptions(&self) -> Vec<&'static str> {
        match self.0 {
            Which::Rules => vec!["'function word' is decided by the harness's frozen per-language list; the run is inconclusive when the build under test recognises fewer than 80 % of it"],
            Which::Empty => vec!["normalised titles (for the tie rule) are the public tokeniser's `chars`"],
            _ => vec!["every configuration is searched on a freshly built store (C10 covers reuse)"],
        }
    }
}
