//! C03, C04, C13, C14: "the record is found" monitors. They share one workload (stores no larger
//! than the limit, queries derived from the public tokenisation of the stored titles) and differ
//! in the derivation and in the coverage they account for.

use crate::common::*;
use crate::fw::*;
use crate::gen;
use crate::oracle;
use lucid_suggest_core::*;
use serde_json::json;
use std::cell::RefCell;
use std::collections::BTreeSet;

#[derive(Clone, Copy, PartialEq, Eq)]
pub enum Which {
    Prefix,
    Typo,
    Whole,
    SplitJoin,
}

pub struct Finds(pub Which);

thread_local! {
    static CORPUS: RefCell<Option<Vec<Rec>>> = RefCell::new(None);
    static CORPUS_STORES: RefCell<Vec<(&'static str, St)>> = RefCell::new(Vec::new());
}

pub fn corpus_recs() -> Vec<Rec> {
    CORPUS.with(|c| {
        let c = &mut *c.borrow_mut();
        if c.is_none() {
            *c = Some(gen::corpus());
        }
        c.as_ref().unwrap().clone()
    })
}

/// The whole e-commerce corpus as one store with limit = N, built once per process and language.
pub fn with_corpus_store<T>(lang: &'static str, f: impl FnOnce(&St, &[Rec]) -> T) -> T {
    let recs = corpus_recs();
    CORPUS_STORES.with(|cs| {
        let cs = &mut *cs.borrow_mut();
        if !cs.iter().any(|(l, _)| *l == lang) {
            cs.push((lang, St::build_sentinel(lang, &recs, recs.len())));
        }
        let st = &cs.iter().find(|(l, _)| *l == lang).unwrap().1;
        f(st, &recs)
    })
}

pub fn with_corpus_store_mut<T>(lang: &'static str, f: impl FnOnce(&mut St, &[Rec]) -> T) -> T {
    let recs = corpus_recs();
    CORPUS_STORES.with(|cs| {
        let cs = &mut *cs.borrow_mut();
        if !cs.iter().any(|(l, _)| *l == lang) {
            cs.push((lang, St::build_sentinel(lang, &recs, recs.len())));
        }
        let st = &mut cs.iter_mut().find(|(l, _)| *l == lang).unwrap().1;
        f(st, &recs)
    })
}

fn len_class(n: usize) -> &'static str {
    match n {
        0..=4 => "len<5",
        5 => "len 5",
        6..=8 => "len 6-8",
        9..=14 => "len 9-14",
        15..=20 => "len 15-20",
        _ => "len >20",
    }
}

/// What the store saw just before the judged query, in one case out of eight: the searches a person typing
/// that query causes (every shorter prefix; the query followed by a separator, then backspace; one letter too
/// many, then backspace; only its first letters). Their results are not judged here; the judged query must find
/// the record whatever the store answered before.
/// Positions `lo..=hi` to try in a word: all of them up to 320 letters, a sample beyond (both ends, the middle,
/// around 1024, a few random ones) - a search against a word of a thousand letters costs a million matrix cells.
fn positions(cx: &mut Cx, lo: usize, hi: usize) -> Vec<usize> {
    if hi < lo {
        return vec![];
    }
    if hi - lo <= 320 {
        return (lo..=hi).collect();
    }
    if hi - lo > 1500 {
        // beyond 2048 letters every search costs several million cells: both ends and the middle only
        cx.count("words of more than 2048 letters (positions sampled)");
        return vec![lo, lo + 2, (lo + hi) / 2, hi - 1, hi];
    }
    let mut v = vec![lo, lo + 1, lo + 2, lo + (hi - lo) / 5, (lo + hi) / 2, hi - 2, hi - 1, hi];
    for p in [1023usize, 1024, 1025].iter() {
        if *p >= lo && *p <= hi {
            v.push(*p);
        }
    }
    for _ in 0..2 {
        v.push(cx.rng.range(lo, hi));
    }
    v.sort();
    v.dedup();
    cx.count("words of more than 320 letters (positions sampled)");
    v
}

/// Now and then the judged query is also put through the top-level registry (what the JS wrapper calls), under an id
/// that has just been used with ANOTHER language and the very same text, then destroyed and created again: if the bare
/// store found the record, so must the registry store holding it.
fn registry_echo(cx: &mut Cx, lang: &'static str, rec: &Rec, q: &str, bare: &[usize]) {
    if !bare.contains(&rec.0) || !cx.rng.chance(1, 60) {
        return;
    }
    let id = (cx.idx as usize + 5_000_000) * 2 + 1;
    let other = LANGS[((cx.idx + 3) % NL) as usize];
    cx.ctx(format!("registry echo lang={} (id used with lang {} before) title={:?} q={:?}", lang, other, rec.1, q));
    if cx.rng.chance(1, 2) {
        create_store(id, take_lang(other));
        add_record(id, 1, "metal mailbox", 1);
        run_search(id, q);
        destroy_store(id);
        create_store(id, take_lang(lang));
        add_record(id, rec.0, &rec.1, rec.2);
    } else {
        // or: the same text is searched while the store is still empty, and the record then arrives prepared by the
        // caller through the registry's accessor
        create_store(id, take_lang(lang));
        run_search(id, q);
        let (rid, title, rating) = (rec.0, rec.1.clone(), rec.2);
        using_store(id, |s| {
            let r = Record::new(rid, &title, rating, &s.lang);
            s.add(r);
        });
    }
    run_search(id, q);
    let ids: Vec<usize> = using_results(id, |b| b.iter().map(|r| r.id).collect());
    destroy_store(id);
    cx.eval();
    cx.count("judged queries echoed through the registry after a locale switch of the id");
    if !ids.contains(&rec.0) {
        cx.fail("not-found-through-the-registry", json!({"lang": lang, "history": format!("create(id, {}), run_search(id, q), destroy(id), create(id, {}), add_record(record), run_search(id, q)", other, lang),
            "record": {"id": rec.0, "title": rec.1, "rating": rec.2}, "query": q, "bare_store_found_it": true, "registry_ids": ids}));
    }
}

/// The build says a derived query does not tokenise back to the intended words. That verdict is believed only if the
/// harness's own tables agree: parts made of letters and digits only which those tables map to themselves (and which
/// hold no letter from the middle of a reduction chain) ARE the intended words - a tokeniser that changes them is the
/// thing to be found, not a reason to skip the query.
fn tables_say_stable(lang: &str, parts: &[&[char]]) -> bool {
    let chain = oracle::chain_letters(lang);
    parts.iter().all(|p| !p.is_empty() && p.iter().all(|c| c.is_alphanumeric() && !chain.contains(c)) && oracle::norm_word(lang, &s(p)) == s(p))
}

fn lead_in(cx: &mut Cx, st: &mut St, q: &str) {
    if cx.rng.chance(1, 24) {
        // the very same query just before, under a lower limit (0, 1 or 2), which is then restored: whatever the store
        // kept from that search was computed for a smaller candidate budget
        let keep = st.store.limit;
        st.store.limit = cx.rng.below(3).min(keep);
        let _ = st.search_ids(q);
        if cx.rng.chance(1, 2) {
            let _ = st.search_ids(&format!("{} ", q));
        }
        st.store.limit = keep;
        cx.count("judged queries preceded by the same query under a lower limit");
        return;
    }
    if !cx.rng.chance(1, 8) {
        return;
    }
    let cs: Vec<char> = q.chars().collect();
    if cs.is_empty() || cs.len() > 40 {
        return;
    }
    cx.count("judged queries preceded by the searches of a person typing them");
    match cx.rng.below(4) {
        0 => {
            let from = cs.len().saturating_sub(8).max(1);
            for k in from..cs.len() {
                let _ = st.search_ids(&s(&cs[..k]));
            }
        }
        1 => {
            let _ = st.search_ids(&format!("{} ", q));
        }
        2 => {
            let extra = *cx.rng.pick(&gen::lower_alphabet(st.lang));
            let _ = st.search_ids(&format!("{}{}", q, extra));
            let _ = st.search_ids(&format!("{}{} ", q, extra));
        }
        _ => {
            let k = cx.rng.range(1, 3).min(cs.len());
            let _ = st.search_ids(&s(&cs[..k]));
        }
    }
}

impl Finds {
    fn check_record(&self, cx: &mut Cx, st: &mut St, store_desc: &serde_json::Value, rec: &Rec, done_words: &mut BTreeSet<String>) {
        // the oracle side tokenises with a language object of its own (same language), so that the store can be
        // handed on mutably (limit dips in the lead-in)
        let own = take_lang(st.lang);
        self.check_record_with(cx, st, &own, store_desc, rec, done_words);
        give_lang(st.lang, own);
    }

    fn check_record_with(&self, cx: &mut Cx, st: &mut St, lobj: &Lang, store_desc: &serde_json::Value, rec: &Rec, done_words: &mut BTreeSet<String>) {
        let lang = st.lang;
        let limit_shown = st.store.limit;
        let tok = st.tok_record(&rec.1);
        let alpha = gen::lower_alphabet(lang);
        if tok.words.len() > 20 {
            cx.count("titles with more than 20 words");
        }
        let mut report = |cx: &mut Cx, clause: &str, q: &str, got: &Vec<usize>, extra: serde_json::Value| {
            cx.fail(
                clause,
                json!({"lang": lang, "store": store_desc, "limit": limit_shown, "record": {"id": rec.0, "title": rec.1, "rating": rec.2},
                       "query": q, "expected_id": rec.0, "got_ids": got, "info": extra}),
            );
        };
        match self.0 {
            Which::Prefix => {
                for (wi, w) in tok.words.iter().enumerate() {
                    let cs = word_chars(&tok, wi).to_vec();
                    if !done_words.insert(s(&cs)) {
                        continue;
                    }
                    for plen in positions(cx, 1, cs.len()) {
                        if !cs[plen - 1].is_alphanumeric() {
                            continue;
                        }
                        let q = s(&cs[..plen]);
                        if !oracle::stable(lobj, &q, &[&cs[..plen]]) {
                            // the build says the typed prefix does not tokenise back to itself. That verdict is believed only if
                            // the harness's own tables agree: a prefix made of letters and digits only, which those tables map to
                            // itself, IS the typed prefix (a tokeniser that trims it is the thing to be found, not a reason to skip)
                            let chain = oracle::chain_letters(lang);
                            let plain = q.chars().all(|c| c.is_alphanumeric()) && oracle::norm_word(lang, &q) == q && !q.chars().any(|c| chain.contains(&c));
                            if !plain {
                                cx.count("skipped_unstable");
                                continue;
                            }
                            cx.count("prefixes the build re-tokenises although the tables leave them alone");
                        }
                        cx.ctx(format!("C03 lang={} title={:?} q={:?}", lang, rec.1, q));
                        lead_in(cx, st, &q);
                        let got = st.search_ids(&q);
                        registry_echo(cx, st.lang, rec, &q, &got);
                        cx.eval();
                        cx.key(hparts(&[lang, &s(&cs), &plen.to_string()]));
                        cx.count(match plen {
                            1 => "prefix len 1",
                            2 => "prefix len 2",
                            3 => "prefix len 3",
                            _ => "prefix len >3",
                        });
                        if plen == cs.len() {
                            cx.count("full word as prefix");
                        }
                        if w.stem < cs.len() {
                            cx.count("word with stem < len");
                        }
                        if w.is_function() {
                            cx.count("function word");
                        }
                        if cs.len() > 20 {
                            cx.count("word > 20 letters");
                        }
                        if tok.source.contains(&'\0') {
                            cx.count("title with expanding letter");
                        }
                        if !got.contains(&rec.0) {
                            report(cx, "prefix-not-found", &q, &got, json!({"word": s(&cs), "prefix_len": plen}));
                        } else if cx.want_sample() && plen == 2 {
                            cx.sample(|| json!({"lang": lang, "title": rec.1, "query": q, "found_id": rec.0, "hits": got.len()}));
                        }
                    }
                }
            }
            Which::Typo => {
                for wi in 0..tok.words.len() {
                    let cs = word_chars(&tok, wi).to_vec();
                    let distinct: BTreeSet<char> = cs.iter().cloned().collect();
                    if !(cs.iter().all(|c| c.is_alphabetic()) && cs.len() >= 5 && distinct.len() >= 3) {
                        continue;
                    }
                    if !done_words.insert(s(&cs)) {
                        continue;
                    }
                    // the mistyped letter is usually a plain letter of the alphabet, sometimes an accented letter of the
                    // language (one that its tables map to a single letter or leave alone): such a query is not plain ASCII
                    // even when the title is
                    let accented: Vec<char> = oracle::accents(lang).iter().map(|a| a.composed).filter(|c| c.is_lowercase() && oracle::fold(lang, *c).map(|f| f.chars().count() == 1).unwrap_or(true)).chain(if lang == "xr" { vec!['é'] } else { vec![] }).collect();
                    for pos in positions(cx, 0, cs.len()) {
                        for kind in 0..4 {
                            let alpha: Vec<char> = if !accented.is_empty() && kind < 2 && cx.rng.chance(1, 8) { accented.clone() } else { alpha.clone() };
                            let mut e = cs.clone();
                            let kind_name = match kind {
                                0 => {
                                    if pos >= e.len() {
                                        continue;
                                    }
                                    let mut c = *cx.rng.pick(&alpha);
                                    while c == e[pos] {
                                        c = *cx.rng.pick(&alpha);
                                    }
                                    e[pos] = c;
                                    "substitution"
                                }
                                1 => {
                                    let c = *cx.rng.pick(&alpha);
                                    e.insert(pos, c);
                                    "insertion"
                                }
                                2 => {
                                    if pos >= e.len() {
                                        continue;
                                    }
                                    e.remove(pos);
                                    "deletion"
                                }
                                _ => {
                                    if pos + 1 >= e.len() || e[pos] == e[pos + 1] {
                                        continue;
                                    }
                                    e.swap(pos, pos + 1);
                                    "transposition"
                                }
                            };
                            let q = s(&e);
                            if !oracle::stable(lobj, &q, &[&e[..]]) {
                                // an accented typo letter is folded by the language: still one word, spelled as the harness's
                                // own tables normalise it, and at most one edit away from the title word
                                let want = cv(&oracle::norm_word(lang, &q));
                                let word = cv(&oracle::norm_word(lang, &s(&cs)));
                                // (only for title words that are fixed points of the language's tables: under a chained table a
                                // stored word can still hold a letter that a query would see reduced once more)
                                let chain = oracle::chain_letters(lang);
                                if !cs.iter().any(|c| chain.contains(c)) && e.iter().any(|c| accented.contains(c)) && oracle::stable(lobj, &q, &[&want[..]]) && oracle::lev(&want, &word) <= 1 {
                                    cx.count("typo letter that is an accented letter of the language");
                                } else if tables_say_stable(lang, &[&e[..]]) {
                                    cx.count("queries the build re-tokenises although the tables leave them alone");
                                } else {
                                    cx.count("skipped_unstable");
                                    continue;
                                }
                            } else if e.iter().any(|c| accented.contains(c)) && !cs.iter().any(|c| accented.contains(c)) {
                                cx.count("typo letter that is an accented letter of the language");
                            }
                            cx.ctx(format!("C04 lang={} title={:?} q={:?}", lang, rec.1, q));
                            lead_in(cx, st, &q);
                            let got = st.search_ids(&q);
                            registry_echo(cx, st.lang, rec, &q, &got);
                            cx.eval();
                            cx.key(hparts(&[lang, &q, &s(&cs)]));
                            cx.count(kind_name);
                            let last_pos = if kind == 3 { cs.len() - 2 } else { cs.len() - 1 };
                            let posc = if pos == 0 { "first" } else if pos >= last_pos { "last" } else { "middle" };
                            cx.count(&format!("{} at {}", kind_name, posc));
                            cx.count(len_class(cs.len()));
                            if tok.words[wi].stem < cs.len() {
                                cx.count("word with stem < len");
                            }
                            if !got.contains(&rec.0) {
                                report(cx, "typo-not-found", &q, &got, json!({"word": s(&cs), "edit": kind_name, "position": pos}));
                            } else if cx.want_sample() && pos == 0 {
                                cx.sample(|| json!({"lang": lang, "title": rec.1, "word": s(&cs), "edit": kind_name, "query": q, "found_id": rec.0}));
                            }
                        }
                    }
                }
            }
            Which::Whole => {
                if tok.words.is_empty() {
                    return;
                }
                cx.ctx(format!("C13 lang={} title={:?}", lang, rec.1));
                lead_in(cx, st, &rec.1);
                let got = st.search_ids(&rec.1);
                registry_echo(cx, st.lang, rec, &rec.1, &got);
                cx.eval();
                cx.key(hparts(&[lang, &rec.1, "whole"]));
                cx.count("whole title");
                cx.count(&format!("title words {}", tok.words.len().min(6)));
                if tok.words.iter().any(|w| w.is_function()) {
                    cx.count("title with function word");
                }
                let mut seen = BTreeSet::new();
                if tok.words.iter().enumerate().any(|(i, _)| !seen.insert(word_chars(&tok, i).to_vec())) {
                    cx.count("title with duplicate word");
                }
                if !got.contains(&rec.0) {
                    report(cx, "whole-title-not-found", &rec.1, &got, json!({}));
                } else if cx.want_sample() {
                    cx.sample(|| json!({"lang": lang, "query": rec.1, "found_id": rec.0, "hits": got.len()}));
                }
                if tok.words.len() >= 2 {
                    let f = word_chars(&tok, 0).to_vec();
                    let l = word_chars(&tok, tok.words.len() - 1).to_vec();
                    // the two words as they stand in the title (capitals, accents and all), typed in the other order. Judged when
                    // both are made of letters and digits only and - the library lowers a text as a whole, and only when it holds
                    // a capital - the pair holds a capital exactly if the title does (decided from the characters alone).
                    let raw = |k: usize| -> Vec<char> { let w = &tok.words[k]; (w.slice.0..w.slice.1).map(|i| tok.source[i]).filter(|c| *c != '\0').collect() };
                    let (rf, rl) = (raw(0), raw(tok.words.len() - 1));
                    let title_has_cap = rec.1.chars().any(|c| c.is_uppercase());
                    let pair_has_cap = rf.iter().chain(rl.iter()).any(|c| c.is_uppercase());
                    if rf.iter().chain(rl.iter()).all(|c| c.is_alphanumeric()) && (rf != f || rl != l) && title_has_cap == pair_has_cap {
                        let q = format!("{} {}", s(&rl), s(&rf));
                        cx.ctx(format!("C13 lang={} title={:?} q={:?} (words as typed in the title)", lang, rec.1, q));
                        let got = st.search_ids(&q);
                        cx.eval();
                        cx.key(hparts(&[lang, &rec.1, "last first as typed"]));
                        cx.count("last first, as the words stand in the title");
                        if !got.contains(&rec.0) {
                            report(cx, "two-words-not-found", &q, &got, json!({"order": "last first, as the words stand in the title", "words": [s(&rl), s(&rf)]}));
                        }
                    }
                    for (a, b, name) in [(&f, &l, "first last"), (&l, &f, "last first")].iter() {
                        let q = format!("{} {}", s(a), s(b));
                        if !oracle::stable(lobj, &q, &[&a[..], &b[..]]) {
                            if tables_say_stable(lang, &[&a[..], &b[..]]) {
                                cx.count("queries the build re-tokenises although the tables leave them alone");
                            } else {
                                cx.count("skipped_unstable");
                                continue;
                            }
                        }
                        cx.ctx(format!("C13 lang={} title={:?} q={:?}", lang, rec.1, q));
                        lead_in(cx, st, &q);
                        let got = st.search_ids(&q);
                        registry_echo(cx, st.lang, rec, &q, &got);
                        cx.eval();
                        cx.key(hparts(&[lang, &rec.1, name]));
                        cx.count(name);
                        if !got.contains(&rec.0) {
                            report(cx, "two-words-not-found", &q, &got, json!({"order": name}));
                        }
                    }
                }
            }
            Which::SplitJoin => {
                for wi in 0..tok.words.len() {
                    let cs = word_chars(&tok, wi).to_vec();
                    if cs.len() >= 3 && done_words.insert(s(&cs)) {
                        for sp in positions(cx, 1, cs.len() - 1) {
                            // the two parts, usually as typed so far; sometimes followed by a separator or by
                            // another title word (then the second part is a finished word)
                            let mut q = format!("{} {}", s(&cs[..sp]), s(&cs[sp..]));
                            match cx.rng.below(6) {
                                0 => {
                                    q.push(' ');
                                    cx.count("split followed by a separator");
                                }
                                1 => {
                                    q.push('.');
                                    cx.count("split followed by a separator");
                                }
                                _ => {}
                            }
                            if !oracle::stable(lobj, &q, &[&cs[..sp], &cs[sp..]]) {
                                // still "the word spelled as two words" when tokenising the query only strips symbols
                                // at the new word edges ("c++ 11" for "c++11"): two words with the same letters and digits
                                let tq = tokenize_query(&q, lobj);
                                let letters = |x: &[char]| -> Vec<char> { x.iter().cloned().filter(|c| c.is_alphanumeric()).collect() };
                                let typed: Vec<char> = tq.words.iter().flat_map(|w| tq.chars[w.slice.0..w.slice.1].to_vec()).collect();
                                if tq.words.len() == 2 && letters(&typed) == letters(&cs) && cs.iter().any(|c| !c.is_alphanumeric()) {
                                    cx.count("split next to symbols inside the word");
                                } else if !q.ends_with(|c: char| !c.is_alphanumeric()) && tables_say_stable(lang, &[&cs[..sp], &cs[sp..]]) {
                                    cx.count("queries the build re-tokenises although the tables leave them alone");
                                } else {
                                    cx.count("skipped_unstable");
                                    continue;
                                }
                            }
                            cx.ctx(format!("C14 lang={} title={:?} q={:?}", lang, rec.1, q));
                            lead_in(cx, st, &q);
                            let got = st.search_ids(&q);
                            registry_echo(cx, st.lang, rec, &q, &got);
                            cx.eval();
                            cx.key(hparts(&[lang, &q, "split"]));
                            cx.count("split");
                            if sp == 1 {
                                cx.count("split after first letter");
                            }
                            if sp == cs.len() - 1 {
                                cx.count("split before last letter");
                            }
                            if !got.contains(&rec.0) {
                                report(cx, "split-not-found", &q, &got, json!({"word": s(&cs), "split_at": sp}));
                            } else if cx.want_sample() && sp == 1 {
                                cx.sample(|| json!({"lang": lang, "title": rec.1, "query": q, "found_id": rec.0}));
                            }
                        }
                    }
                }
                for wi in 0..tok.words.len().saturating_sub(1) {
                    let (w1, w2) = (&tok.words[wi], &tok.words[wi + 1]);
                    if w2.slice.0 - w1.slice.1 != 1 {
                        continue;
                    }
                    let mut j = word_chars(&tok, wi).to_vec();
                    j.extend_from_slice(word_chars(&tok, wi + 1));
                    if j.len() < 3 {
                        continue;
                    }
                    let q = s(&j);
                    let tq = st.tok_query(&q);
                    if tq.words.len() != 1 || tq.words[0].stem != j.len() || tq.chars[..] != j[..] {
                        cx.count("join skipped (stemmed or unstable)");
                        continue;
                    }
                    cx.ctx(format!("C14 lang={} title={:?} q={:?}", lang, rec.1, q));
                    lead_in(cx, st, &q);
                    let got = st.search_ids(&q);
                    registry_echo(cx, st.lang, rec, &q, &got);
                    cx.eval();
                    cx.key(hparts(&[lang, &rec.1, &q, "join"]));
                    cx.count("join");
                    cx.count(&format!("join gap {:?}", tok.chars[w1.slice.1]));
                    if w1.slice.1 - w1.slice.0 == 1 {
                        cx.count("join with 1-letter first word");
                    }
                    if w2.slice.1 - w2.slice.0 == 1 {
                        cx.count("join with 1-letter second word");
                    }
                    if !got.contains(&rec.0) {
                        report(cx, "join-not-found", &q, &got, json!({"first": s(word_chars(&tok, wi)), "second": s(word_chars(&tok, wi + 1))}));
                    } else if cx.want_sample() {
                        cx.sample(|| json!({"lang": lang, "title": rec.1, "query": q, "found_id": rec.0}));
                    }
                }
            }
        }
    }
}

/// Function words of >= 5 letters per language (workload only: edits of these often spell
/// *another* function word, e.g. though/through, после/подле).
pub fn long_function_words() -> Vec<(&'static str, &'static str)> {
    let table: [(&str, &str); 6] = [
        ("en", "since before untill beside under below above across through towards about after although because either though unless until whatever whenever where whereas wherever whether which whichever while whilst whoever whomever whose"),
        ("de", "einem einen einer eines durch entlang gegen hinter neben anstatt bevor damit entweder nachdem obwohl seitdem sobald sofern sondern soweit sowie sowohl während weder schon etwas ruhig soweiso"),
        ("es", "abajo alrededor antes aquellos arriba contra dentro desde durante encima entre estos fuera hacia hasta opuesto próximo salvo sobre aunque entonces excepto porque"),
        ("fr", "après avant cette comme contre depuis derrière entre malgré opposé prochain selon ensuite lorsque pourquoi puisque quand quoique"),
        ("pt", "abaixo acima antes aproximadamente aquela aquele aqueles atrás conforme contra depois desde distante durante entre estas estes exceto oposto perto próximo sobre agora contudo enquanto então porém porque portanto quando todavia"),
        ("ru", "благодаря ввиду вдоль вместо внутри внутрь возле вокруг вопреки впереди вследствие кроме между напротив насчет около перед передо подле позади помимо после посреди посредством против путём сверх свыше сквозь среди через будто впрочем ежели если зато именно когда которая которого которое котором которую которые который которых лишь настолько однако покамест покуда пускай пусть словно также точно хотя чтобы здесь неужели пожалуй почти просто разве только угодно"),
    ];
    let mut out = vec![];
    for (lang, words) in table.iter() {
        for w in words.split(' ') {
            out.push((*lang, w));
        }
    }
    out
}

impl Finds {
    /// C04 with every letter of the alphabet at every position (not one random letter).
    fn typo_exhaustive(&self, cx: &mut Cx, lang: &'static str, word: &str) {
        let title = if cx.rng.chance(1, 2) { word.to_string() } else { format!("{} {}", word, gen::rand_word(&mut cx.rng, &gen::lower_alphabet(lang), 3, 6)) };
        let rec: Rec = (1, title, 3);
        let mut st = St::build_sentinel(lang, &[rec.clone()], 5);
        let tok = st.tok_record(&rec.1);
        if tok.words.is_empty() {
            return;
        }
        let cs = word_chars(&tok, 0).to_vec();
        let distinct: BTreeSet<char> = cs.iter().cloned().collect();
        if !(cs.iter().all(|c| c.is_alphabetic()) && cs.len() >= 5 && distinct.len() >= 3) {
            return;
        }
        if tok.words[0].is_function() {
            cx.count("exhaustive-letter words that are function words");
        }
        let alpha = gen::lower_alphabet(lang);
        let mut queries: Vec<(Vec<char>, &'static str)> = vec![];
        for pos in 0..=cs.len() {
            for &c in &alpha {
                if pos < cs.len() && c != cs[pos] {
                    let mut e = cs.clone();
                    e[pos] = c;
                    queries.push((e, "substitution"));
                }
                let mut e = cs.clone();
                e.insert(pos, c);
                queries.push((e, "insertion"));
            }
            if pos < cs.len() {
                let mut e = cs.clone();
                e.remove(pos);
                queries.push((e, "deletion"));
            }
            if pos + 1 < cs.len() && cs[pos] != cs[pos + 1] {
                let mut e = cs.clone();
                e.swap(pos, pos + 1);
                queries.push((e, "transposition"));
            }
        }
        for (e, kind) in queries {
            let q = s(&e);
            if !oracle::stable(&st.store.lang, &q, &[&e[..]]) {
                cx.count("skipped_unstable");
                continue;
            }
            cx.ctx(format!("C04 exhaustive lang={} title={:?} q={:?}", lang, rec.1, q));
            lead_in(cx, &mut st, &q);
            let got = st.search_ids(&q);
            registry_echo(cx, st.lang, &rec, &q, &got);
            cx.eval();
            cx.count("exhaustive-letter edits");
            cx.key(hparts(&[lang, &q, &s(&cs)]));
            if !got.contains(&rec.0) {
                cx.fail("typo-not-found", json!({"lang": lang, "store": [rec.clone()], "limit": 5, "record": {"id": rec.0, "title": rec.1}, "query": q, "expected_id": rec.0, "got_ids": got,
                    "info": {"word": s(&cs), "edit": kind, "letters": "every letter of the alphabet"}}));
            }
        }
    }
}

impl Finds {
    /// The property for a language drawn at random (`userlang.rs`): a store of that language under a limit that holds all its
    /// records; every word of every title as the public tokeniser of THAT language (a second object built from the same
    /// tables) delivers it; derived queries only when that tokeniser maps them back to exactly the intended words.
    fn user_lang_case(&self, cx: &mut Cx) {
        let mut twin = Rng(cx.rng.0);
        let mut ul = crate::userlang::UserLang::random_opts(&mut cx.rng, false);
        let ul2 = crate::userlang::UserLang::random_opts(&mut twin, false);
        let desc = ul.desc();
        let n = cx.rng.range(1, 4);
        let recs: Vec<Rec> = (0..n).map(|i| (i + 1, ul.text(&mut cx.rng, 4), cx.rng.below(5))).collect();
        let mut store = Store::new();
        store.lang = std::mem::replace(&mut ul.lang, Lang::new());
        store.limit = *cx.rng.pick(&[n, n + 1, 10]);
        for r in &recs {
            let rec = Record::new(r.0, &r.1, r.2, &store.lang);
            store.add(rec);
        }
        let lobj = &ul2.lang;
        cx.count("stores of a language drawn at random");
        let plain: Vec<char> = cv("abcnostz");
        let mut judge = |cx: &mut Cx, clause: &str, rec: &Rec, q: &str, info: serde_json::Value| {
            cx.ctx(format!("{} user-defined language {} recs={:?} q={:?}", clause, desc, recs, q));
            let got: Vec<usize> = store.search(&tokenize_query(q, &store.lang).to_ref()).into_iter().map(|r| r.id).collect();
            cx.eval();
            cx.count("queries judged in stores of a random language");
            cx.key(hparts(&["userlang", &desc.to_string(), &rec.1, q]));
            if !got.contains(&rec.0) {
                cx.fail(clause, json!({"language": "defined by the case through the public Lang API", "tables": desc, "store": recs, "limit": store.limit,
                    "record": {"id": rec.0, "title": rec.1, "rating": rec.2}, "query": q, "expected_id": rec.0, "got_ids": got, "info": info}));
                return false;
            }
            true
        };
        for rec in &recs {
            let tok = tokenization::tokenize_record(&rec.1, lobj);
            match self.0 {
                Which::Prefix => {
                    for wi in 0..tok.words.len() {
                        let cs = word_chars(&tok, wi).to_vec();
                        for plen in 1..=cs.len().min(12) {
                            if !cs[plen - 1].is_alphanumeric() {
                                continue;
                            }
                            let q = s(&cs[..plen]);
                            if !oracle::stable(lobj, &q, &[&cs[..plen]]) {
                                cx.count("skipped_unstable in a random language");
                                continue;
                            }
                            if !judge(cx, "prefix-not-found", rec, &q, json!({"word": s(&cs), "prefix_len": plen})) {
                                return;
                            }
                        }
                    }
                }
                Which::Typo => {
                    for wi in 0..tok.words.len() {
                        let cs = word_chars(&tok, wi).to_vec();
                        let distinct: BTreeSet<char> = cs.iter().cloned().collect();
                        if !(cs.iter().all(|c| c.is_alphabetic()) && cs.len() >= 5 && distinct.len() >= 3) {
                            continue;
                        }
                        for _ in 0..6 {
                            let pos = cx.rng.below(cs.len());
                            let mut e = cs.clone();
                            let kind = match cx.rng.below(4) {
                                0 => {
                                    let c = *cx.rng.pick(&plain);
                                    if c == e[pos] {
                                        continue;
                                    }
                                    e[pos] = c;
                                    "substitution"
                                }
                                1 => {
                                    e.insert(pos, *cx.rng.pick(&plain));
                                    "insertion"
                                }
                                2 => {
                                    e.remove(pos);
                                    "deletion"
                                }
                                _ => {
                                    if pos + 1 >= e.len() || e[pos] == e[pos + 1] {
                                        continue;
                                    }
                                    e.swap(pos, pos + 1);
                                    "transposition"
                                }
                            };
                            let q = s(&e);
                            if !oracle::stable(lobj, &q, &[&e[..]]) {
                                cx.count("skipped_unstable in a random language");
                                continue;
                            }
                            if !judge(cx, "typo-not-found", rec, &q, json!({"word": s(&cs), "edit": kind, "position": pos})) {
                                return;
                            }
                        }
                    }
                }
                Which::Whole => {
                    if tok.words.is_empty() {
                        continue;
                    }
                    if !judge(cx, "whole-title-not-found", rec, &rec.1, json!({})) {
                        return;
                    }
                    if tok.words.len() >= 2 {
                        let f = word_chars(&tok, 0).to_vec();
                        let l = word_chars(&tok, tok.words.len() - 1).to_vec();
                        for (a, b) in [(&f, &l), (&l, &f)].iter() {
                            let q = format!("{} {}", s(a), s(b));
                            if !oracle::stable(lobj, &q, &[&a[..], &b[..]]) {
                                cx.count("skipped_unstable in a random language");
                                continue;
                            }
                            if !judge(cx, "two-words-not-found", rec, &q, json!({"words": [s(a), s(b)]})) {
                                return;
                            }
                        }
                    }
                }
                Which::SplitJoin => {
                    for wi in 0..tok.words.len() {
                        let cs = word_chars(&tok, wi).to_vec();
                        if cs.len() < 3 {
                            continue;
                        }
                        for k in 1..cs.len().min(12) {
                            let q = format!("{} {}", s(&cs[..k]), s(&cs[k..]));
                            if !oracle::stable(lobj, &q, &[&cs[..k], &cs[k..]]) {
                                cx.count("skipped_unstable in a random language");
                                continue;
                            }
                            if !judge(cx, "split-not-found", rec, &q, json!({"word": s(&cs), "split_at": k})) {
                                return;
                            }
                        }
                        if wi + 1 < tok.words.len() && tok.words[wi + 1].slice.0 == tok.words[wi].slice.1 + 1 {
                            let mut j = cs.clone();
                            j.extend_from_slice(word_chars(&tok, wi + 1));
                            let q = s(&j);
                            let tq = tokenize_query(&q, lobj);
                            if j.len() >= 3 && tq.words.len() == 1 && tq.words[0].stem == tq.words[0].slice.1 - tq.words[0].slice.0 && oracle::stable(lobj, &q, &[&j[..]]) {
                                if !judge(cx, "join-not-found", rec, &q, json!({"words": [s(&cs), s(word_chars(&tok, wi + 1))]})) {
                                    return;
                                }
                            }
                        }
                    }
                }
            }
        }
    }
}

impl Prop for Finds {
    fn id(&self) -> &'static str {
        match self.0 {
            Which::Prefix => "C03",
            Which::Typo => "C04",
            Which::Whole => "C13",
            Which::SplitJoin => "C14",
        }
    }
    fn rule(&self) -> &'static str {
        match self.0 {
            Which::Prefix => "stores with |store| <= limit (generated titles in 7 languages, per-language vocabulary with edge decorations, the e-commerce corpus as one store); for every word of every title every prefix ending in a letter/digit is searched and the record must be among the hits; a case is one (language, normalised word, prefix length); derived queries that do not re-tokenise to the intended word are skipped and counted",
            Which::Typo => "same stores; every title word of >=5 letters with >=3 distinct letters, every position x {substitution, insertion, deletion, adjacent transposition}; the edited word is searched alone and the record must be among the hits; a case is one (language, word, edited word)",
            Which::Whole => "same stores; query = the stored title verbatim, and 'first last' / 'last first' of its normalised words; a case is one (language, title, query form)",
            Which::SplitJoin => "same stores; every title word of >=3 characters split at every point, and every adjacent word pair separated by exactly one character run together (when the joined query is one unstemmed word); a case is one (language, query)",
        }
    }
    fn streams(&self) -> Vec<Stream> {
        match self.0 {
            Which::Prefix => vec![Stream::new("gen", 6400, 320000), Stream::new("vocab", NL, NL), Stream::new("corpus", 640, 3285 * 2), Stream::new("big", 16, 160), Stream::new("userlang", 3000, 150000)],
            Which::Typo => vec![Stream::new("gen", 2400, 48000), Stream::new("vocab", NL, NL), Stream::new("corpus", 480, 3285 * 2), Stream::new("letters", 600, 6000), Stream::new("big", 16, 160), Stream::new("userlang", 3000, 150000)],
            Which::Whole => vec![Stream::new("gen", 12800, 640000), Stream::new("vocab", NL, NL), Stream::new("corpus", 1600, 3285 * 2), Stream::new("big", 16, 160), Stream::new("userlang", 3000, 150000)],
            Which::SplitJoin => vec![Stream::new("gen", 6400, 192000), Stream::new("vocab", NL, NL), Stream::new("corpus", 960, 3285 * 2), Stream::new("big", 16, 160), Stream::new("userlang", 3000, 150000)],
        }
    }
    fn floors(&self) -> Vec<(&'static str, u64, u64)> {
        match self.0 {
            Which::Prefix => vec![("prefix len 1", 500, 5000), ("prefix len 2", 500, 5000), ("prefix len >3", 2000, 20000), ("word with stem < len", 200, 2000), ("function word", 20, 200), ("word > 20 letters", 20, 200), ("judged queries echoed through the registry after a locale switch of the id", 500, 5000), ("judged queries preceded by the same query under a lower limit", 1000, 10000), ("stores with a title in letters outside the BMP", 20, 200), ("stores with a word (or word pair) of more than 1024 letters", 2, 20), ("stores with a word of more than 4096 letters", 0, 10), ("stores cleared and refilled before the judged searches", 100, 1000), ("judged queries preceded by the searches of a person typing them", 5000, 50000), ("titles with more than 20 words", 100, 1000), ("catalogues of more than 2^19 records that share their first letter", 1, 10), ("titles with more than 1024 words", 1, 5), ("queries judged after a pause of about 2^16 searches that left their record alone", 4, 20)],
            Which::Typo => vec![("substitution at first", 50, 500), ("insertion at first", 50, 500), ("deletion at first", 50, 500), ("transposition at first", 50, 500), ("transposition at last", 50, 500), ("len 5", 200, 2000), ("len >20", 100, 1000), ("judged queries echoed through the registry after a locale switch of the id", 500, 5000), ("judged queries preceded by the same query under a lower limit", 1000, 10000), ("stores with a title in letters outside the BMP", 20, 200), ("stores with a word (or word pair) of more than 1024 letters", 2, 20), ("stores with a word of more than 4096 letters", 0, 10), ("stores cleared and refilled before the judged searches", 100, 1000), ("typo letter that is an accented letter of the language", 3000, 30000), ("judged queries preceded by the searches of a person typing them", 5000, 50000), ("titles with more than 20 words", 30, 300), ("exhaustive-letter edits", 30000, 250000), ("exhaustive-letter words that are function words", 150, 150), ("titles with more than 1024 words", 1, 5), ("queries judged after a pause of about 2^16 searches that left their record alone", 4, 20)],
            Which::Whole => vec![("whole title", 1000, 10000), ("first last", 300, 3000), ("judged queries echoed through the registry after a locale switch of the id", 500, 5000), ("judged queries preceded by the same query under a lower limit", 1000, 10000), ("stores with a title in letters outside the BMP", 20, 200), ("stores with a word (or word pair) of more than 1024 letters", 2, 20), ("stores with a word of more than 4096 letters", 0, 10), ("stores cleared and refilled before the judged searches", 100, 1000), ("judged queries preceded by the searches of a person typing them", 5000, 50000), ("last first", 300, 3000), ("title with function word", 50, 500), ("titles with more than 20 words", 200, 2000), ("catalogues searched while small, then grown and given limit = N", 6, 60), ("titles with more than 65 536 distinct grams", 1, 10), ("titles with more than 1024 words", 1, 5), ("queries judged after a pause of about 2^16 searches that left their record alone", 4, 20)],
            Which::SplitJoin => vec![("split", 2000, 20000), ("split after first letter", 200, 2000), ("judged queries echoed through the registry after a locale switch of the id", 500, 5000), ("judged queries preceded by the same query under a lower limit", 1000, 10000), ("stores with a title in letters outside the BMP", 20, 200), ("stores with a word (or word pair) of more than 1024 letters", 2, 20), ("stores with a word of more than 4096 letters", 0, 10), ("stores cleared and refilled before the judged searches", 100, 1000), ("judged queries preceded by the searches of a person typing them", 5000, 50000), ("join", 100, 1000), ("join with 1-letter first word", 3, 30), ("titles with more than 20 words", 100, 1000), ("split followed by a separator", 20000, 200000), ("split next to symbols inside the word", 300, 3000), ("titles with more than 1024 words", 1, 5), ("queries judged after a pause of about 2^16 searches that left their record alone", 4, 20)],
        }
    }
    fn ratios(&self) -> Vec<(&'static str, &'static str, f64, f64)> {
        match self.0 {
            Which::Prefix => vec![("skipped_unstable", "prefix len 1", 0.0, 0.2)],
            Which::Typo => vec![("skipped_unstable", "substitution", 0.0, 0.2)],
            Which::Whole => vec![("skipped_unstable", "whole title", 0.0, 0.2)],
            Which::SplitJoin => vec![("skipped_unstable", "split", 0.0, 0.2)],
        }
    }
    fn run(&self, cx: &mut Cx, stream: &str, idx: u64) {
        let mut done = BTreeSet::new();
        match stream {
            "gen" => {
                let lang = LANGS[(idx % NL) as usize];
                let corpus = corpus_recs();
                let n = cx.rng.range(1, 8);
                let mut recs = gen::rand_recs(&mut cx.rng, lang, n, false, &corpus);
                if cx.rng.chance(1, 4) {
                    // a neighbour record made of the first part of a word of another title
                    let t: Vec<char> = cx.rng.pick(&recs).1.chars().filter(|c| c.is_alphanumeric()).collect();
                    if t.len() >= 2 {
                        let k = cx.rng.range(1, t.len().min(6));
                        recs.push((100 + recs.len() * 3, s(&t[..k]), cx.rng.below(4)));
                    }
                }
                if cx.rng.chance(1, 40) {
                    // a title in letters outside the Basic Multilingual Plane (Deseret lower case, sometimes capitalised)
                    let deseret: Vec<char> = (0..14u32).filter_map(|k| std::char::from_u32(0x10428 + k)).collect();
                    let mut w1 = gen::rand_word(&mut cx.rng, &deseret, 5, 9);
                    if cx.rng.chance(1, 3) {
                        let mut cs: Vec<char> = w1.chars().collect();
                        cs[0] = std::char::from_u32(cs[0] as u32 - 0x28).unwrap_or(cs[0]);
                        w1 = cs.into_iter().collect();
                    }
                    let t = format!("{} {}", w1, gen::rand_word(&mut cx.rng, &deseret, 2, 7));
                    recs.push((88, t, 2));
                    cx.count("stores with a title in letters outside the BMP");
                }
                if idx % 40 == 23 {
                    // a word that begins with 32-70 repeats of one letter, or 20-40 repeats of two (a long typed prefix of it has
                    // three or four different grams, however long it is)
                    let alpha = gen::lower_alphabet(lang);
                    let (a, b) = (alpha[(idx as usize / 40) % alpha.len()], alpha[(idx as usize / 40 + 5) % alpha.len()]);
                    let run: String = if (idx / 40) % 2 == 0 { std::iter::repeat(a).take(32 + (idx as usize / 80) % 39).collect() } else { std::iter::repeat(s(&[a, b])).take(20 + (idx as usize / 80) % 21).collect() };
                    recs.push((68, format!("{}{}", run, gen::rand_word(&mut cx.rng, &alpha, 2, 4)), 2));
                    cx.count("stores with a word that begins with a long run of one or two letters");
                }
                if idx % 40 == 17 {
                    // a title of two or three short words that begin with a title-case letter (neither upper nor lower case:
                    // U+01C5, U+01C8, U+01CB, U+01F2, U+1F88) followed by capitals
                    let lt = cv("\u{1c5}\u{1c8}\u{1cb}\u{1f2}\u{1f88}");
                    let caps = cv("AEMNZTK");
                    let nw = 2 + (idx / 40) as usize % 2;
                    let words: Vec<String> = (0..nw).map(|k| format!("{}{}", lt[(idx as usize / 40 + k) % lt.len()], s(&(0..2 + k % 2).map(|j| caps[(idx as usize / 7 + 3 * k + j) % caps.len()]).collect::<Vec<_>>()))).collect();
                    recs.push((66, words.join(" "), 1));
                    cx.count("stores with a title of words that begin with a title-case letter followed by capitals");
                }
                // (at fixed case numbers: a word of more than 4096 letters - some 17 million matrix cells per search)
                let giant4k = cx.tier != Tier::Miri && idx % 1201 == 601 && idx < 48_040;
                if cx.tier != Tier::Miri && (giant4k || cx.rng.chance(1, 250)) {
                    // a title with a word of more than 1024 letters, or two words whose run-together spelling passes 1024
                    let alpha = gen::lower_alphabet(lang);
                    let t = if giant4k {
                        cx.count("stores with a word of more than 4096 letters");
                        // (every other time the title is that word alone: no shorter word finds the record for it)
                        if (idx / 1201) % 2 == 0 {
                            gen::rand_word(&mut cx.rng, &alpha, 4097, 4300)
                        } else {
                            format!("{} {}", gen::any_word(&mut cx.rng, lang), gen::rand_word(&mut cx.rng, &alpha, 4097, 4300))
                        }
                    } else if cx.rng.chance(1, 2) {
                        // (one in three beyond 2048 letters)
                        let lead = if cx.rng.chance(1, 3) { String::new() } else { format!("{} ", gen::any_word(&mut cx.rng, lang)) };
                        if cx.rng.chance(1, 3) {
                            format!("{}{}", lead, gen::rand_word(&mut cx.rng, &alpha, 2049, 2200))
                        } else {
                            format!("{}{}", lead, gen::rand_word(&mut cx.rng, &alpha, 1025, 1300))
                        }
                    } else {
                        format!("{} {}", gen::rand_word(&mut cx.rng, &alpha, 500, 640), gen::rand_word(&mut cx.rng, &alpha, 520, 640))
                    };
                    recs.truncate(2);
                    // judged before or after its short neighbours (what the thread keeps from the long word is then in
                    // place when they are searched)
                    if cx.rng.chance(1, 2) {
                        recs.insert(0, (77, t, 3));
                    } else {
                        recs.push((77, t, 3));
                    }
                    cx.count("stores with a word (or word pair) of more than 1024 letters");
                }
                let n = recs.len();
                let limit = *cx.rng.pick(&[n, n, n + 1, 10.max(n), 65536]);
                // one store in six had another life before: fewer, other records, a search, then emptied and refilled
                let mut st = if cx.rng.chance(1, 6) {
                    let mut st = St::sentinel(lang, limit);
                    for k in 0..cx.rng.range(1, n) {
                        st.add(&(5000 + k, gen::realistic_title(&mut cx.rng, lang, &corpus), 1));
                    }
                    let _ = st.search(&recs[0].1);
                    let _ = st.search("");
                    st.store.clear();
                    for r in &recs {
                        st.add(r);
                    }
                    cx.count("stores cleared and refilled before the judged searches");
                    st
                } else {
                    St::build_sentinel(lang, &recs, limit)
                };
                let desc = json!(recs);
                for r in &recs {
                    self.check_record(cx, &mut st, &desc, r, &mut done);
                }
            }
            "vocab" => {
                // every vocabulary word of one language, alone and decorated, in one-record stores
                let lang = LANGS[(idx % NL) as usize];
                let words = gen::vocab(lang);
                for (k, w) in words.iter().enumerate() {
                    let pre = ["", "'", "- ", " ", "("][k % 5];
                    let post = ["", "!", "'", " ", ")."][(k / 5) % 5];
                    let title = format!("{}{}{}", pre, w, post);
                    let rec: Rec = (k + 1, title, 5);
                    let mut st = St::build_sentinel(lang, &[rec.clone()], 1);
                    done.clear();
                    self.check_record(cx, &mut st, &json!([rec.clone()]), &rec, &mut done);
                }
                // and all of them together in one store
                let recs: Vec<Rec> = words.iter().enumerate().map(|(k, w)| (k + 1, w.to_string(), k % 4)).collect();
                let mut st = St::build_sentinel(lang, &recs, recs.len());
                done.clear();
                for r in &recs {
                    self.check_record(cx, &mut st, &json!("all vocabulary words of the language, one record each"), r, &mut done);
                }
            }
            "letters" => {
                // every function word of >= 5 letters, then vocabulary words, with every letter of the alphabet
                let fw = long_function_words();
                let (lang, word): (&'static str, String) = if (idx as usize) < fw.len() {
                    let (l, w) = fw[idx as usize];
                    (LANGS.iter().find(|x| **x == l).copied().unwrap_or("none"), w.to_string())
                } else {
                    let lang = LANGS[(idx % NL) as usize];
                    let v = gen::vocab(lang);
                    let alpha = gen::lower_alphabet(lang);
                    let w = match cx.rng.below(4) {
                        0 => cx.rng.pick(&v).to_string(),
                        1 => format!("{}{}", gen::rand_word(&mut cx.rng, &alpha, 3, 6), cx.rng.pick(&gen::suffixes(lang))),
                        2 => {
                            // three distinct letters, one of them doubled
                            let a = [*cx.rng.pick(&alpha), *cx.rng.pick(&alpha), *cx.rng.pick(&alpha)];
                            gen::rand_word(&mut cx.rng, &a, 5, 7)
                        }
                        _ => gen::rand_word(&mut cx.rng, &alpha, 5, 9),
                    };
                    (lang, w)
                };
                self.typo_exhaustive(cx, lang, &word);
            }
            "big" if self.0 == Which::Whole && idx % 16 == 15 && cx.tier != Tier::Miri => {
                // a title with more than 65 536 distinct grams (290-330 words of 230 different letters), searched verbatim
                let lang = LANGS[((idx / 16) % NL) as usize];
                let letters: Vec<char> = (0..230u32).filter_map(|k| std::char::from_u32(0x4E00 + k * 7)).collect();
                let nwords = cx.rng.range(290, 330);
                let mut words: Vec<String> = vec![];
                for _ in 0..nwords {
                    let mut w = letters.clone();
                    cx.rng.shuffle(&mut w);
                    words.push(s(&w));
                }
                let recs: Vec<Rec> = vec![(1, "metal mailbox".to_string(), 1), (2, words.join(" "), 2), (3, words[1].clone(), 3)];
                let mut st = St::build_sentinel(lang, &recs, 10);
                cx.count("titles with more than 65 536 distinct grams");
                self.check_record(cx, &mut st, &json!(format!("3 records; record 2 has {} words of 230 different letters", nwords)), &recs[1], &mut done);
            }
            "userlang" => self.user_lang_case(cx),
            "big" if idx % 16 == 10 && cx.tier != Tier::Miri => {
                // a session on one small store: the judged query finds its record, then 65 533 / 65 534 / 65 535 / 65 536 searches
                // for another record's word follow that share no gram with it (the judged record is left alone for exactly that
                // long), then the judged query again - what found the record before the pause finds it after the pause
                let lang = LANGS[((idx / 16) % NL) as usize];
                let alpha: Vec<char> = gen::lower_alphabet(lang).into_iter().filter(|c| c.is_alphabetic()).collect();
                let half = alpha.len() / 2;
                if half < 3 {
                    return;
                }
                let a = gen::rand_word(&mut cx.rng, &alpha[..half], 7, 9);
                let b = gen::rand_word(&mut cx.rng, &alpha[half..], 5, 8);
                let ac = cv(&a);
                let q = match self.0 {
                    Which::Prefix => s(&ac[..cx.rng.range(1, 4)]),
                    Which::Typo => {
                        let mut e = ac.clone();
                        let p = cx.rng.range(1, e.len() - 2);
                        e.swap(p, p + 1);
                        s(&e)
                    }
                    Which::Whole => a.clone(),
                    Which::SplitJoin => format!("{} {}", s(&ac[..3]), s(&ac[3..])),
                };
                let recs: Vec<Rec> = vec![(1, a.clone(), 1), (2, b.clone(), 2)];
                let mut st = St::build_sentinel(lang, &recs, 10);
                // (every search of this store is exactly one call: no foreign query first, no retained buffer)
                st.foreign_query_first = false;
                st.reuse_query_buffer = false;
                for gap in [65_533usize, 65_534, 65_535, 65_536].iter() {
                    cx.ctx(format!("session lang={} recs={:?} q={:?} pause={}", lang, recs, q, gap));
                    let before = st.search_ids(&q);
                    if !before.contains(&1) {
                        cx.count("session queries that did not find their record before the pause (not judged)");
                        return;
                    }
                    for _ in 0..*gap {
                        let _ = st.search_ids(&b);
                    }
                    let after = st.search_ids(&q);
                    cx.eval();
                    cx.count("queries judged after a pause of about 2^16 searches that left their record alone");
                    cx.key(hparts(&[lang, &a, &q, &gap.to_string(), "session"]));
                    if !after.contains(&1) {
                        cx.fail("not-found-after-a-pause", json!({"lang": lang, "store": recs, "limit": 10, "query": q, "expected_id": 1, "got_ids": after,
                            "history": format!("the same query found the record ({:?}); then {} searches for {:?}, which shares no letter with the record, then the same query again", before, gap, b)}));
                        return;
                    }
                }
            }
            "big" if idx % 16 == 6 && cx.tier != Tier::Miri => {
                // a title of 1025-1300 words (a description rather than a name): a thousand and more words from a pool of six,
                // then five words of its own at the very end - those, their prefixes, typos, splits and joins are judged
                let lang = LANGS[((idx / 16) % NL) as usize];
                let alpha = gen::lower_alphabet(lang);
                let pool: Vec<String> = (0..6).map(|_| gen::rand_word(&mut cx.rng, &alpha, 2, 5)).collect();
                let nwords = cx.rng.range(1025, 1300);
                let mut words: Vec<String> = (0..nwords).map(|_| cx.rng.pick(&pool).clone()).collect();
                for _ in 0..5 {
                    words.push(gen::rand_word(&mut cx.rng, &alpha, 3, 9));
                }
                let title = words.join(" ");
                let recs: Vec<Rec> = vec![(1, gen::rand_title(&mut cx.rng, lang, 3), 1), (2, title, 2)];
                let mut st = St::build_sentinel(lang, &recs, 10);
                cx.count("titles with more than 1024 words");
                // (the pool words are judged once each, where they stand first; the last five where they stand)
                self.check_record(cx, &mut st, &json!(format!("2 records; record 2 has {} words, the last five are {:?}", nwords + 5, &words[nwords..])), &recs[1], &mut done);
            }
            "big" => {
                // a catalogue of 4200-9000 records dominated by one word (posting lists beyond 4096 / 8192
                // entries), limit = N; the checked records are short words and pairs that share only the
                // dominant word's one- and two-letter starts with it ("wi-fi" / "wifi" next to thousands of "with ...")
                let lang = LANGS[(idx % NL) as usize];
                let alpha = gen::lower_alphabet(lang);
                if self.0 == Which::Prefix && idx % 16 == 9 && cx.tier != Tier::Miri {
                    // more than 2^19 records that all start with the same letter, limit = N: typing that letter lists every one
                    // of them (the largest store any monitor builds; beyond it nothing is explored)
                    let n = (1usize << 19) + cx.rng.range(1, 40_000);
                    let (a, b, c) = (alpha[cx.rng.below(alpha.len())], alpha[cx.rng.below(alpha.len())], alpha[cx.rng.below(alpha.len())]);
                    let mut st = St::sentinel(lang, n);
                    for i in 0..n {
                        let t = if i % 2 == 0 { s(&[a, b]) } else { s(&[a, b, ' ', c]) };
                        st.add(&(i, t, i % 7));
                    }
                    let q = s(&[a]);
                    cx.ctx(format!("C03 big lang={} {} records titled {:?} or {:?}, limit = N, q={:?}", lang, n, s(&[a, b]), s(&[a, b, ' ', c]), q));
                    let got = st.search_ids(&q);
                    cx.eval();
                    cx.count("catalogues of more than 2^19 records that share their first letter");
                    let mut seen = vec![false; n];
                    for id in &got {
                        if *id < n {
                            seen[*id] = true;
                        }
                    }
                    let missing = seen.iter().filter(|x| !**x).count();
                    if missing > 0 {
                        let first = seen.iter().position(|x| !*x).unwrap_or(0);
                        cx.fail("prefix-not-found", json!({"lang": lang, "store": format!("{} records titled {:?} (even ids) or {:?} (odd ids), limit = N", n, s(&[a, b]), s(&[a, b, ' ', c])), "query": q, "hits": got.len(), "records_not_among_the_hits": missing, "first_missing_id": first}));
                    }
                    cx.key(hparts(&[lang, &n.to_string(), &q, "half-million"]));
                    return;
                }
                // (one big case in sixteen: 66 000 - 70 000 records, so that more than 2^16 candidates compete under limit = N)
                let n = if idx % 16 == 3 { *cx.rng.pick(&[66_000usize, 70_000]) } else { *cx.rng.pick(&[4200usize, 4500, 5000, 8300, 9000]) };
                if n > 60_000 {
                    cx.count("catalogues of more than 65 536 records under limit = N");
                }
                let dom = gen::rand_word(&mut cx.rng, &alpha, 4, 5);
                let p2: String = dom.chars().take(2).collect();
                let pair = (gen::rand_word(&mut cx.rng, &alpha, 3, 4), gen::rand_word(&mut cx.rng, &alpha, 3, 4));
                let mut recs: Vec<Rec> = if n > 60_000 {
                    // every record spells the same two words apart; the targets spell them run together (and the other way
                    // round): they share fewer grams with their own split / joined spelling than the tens of thousands of
                    // literal matches do
                    (0..n).map(|i| (10_000 + i, format!("{} {}", pair.0, pair.1), i % 50)).collect()
                } else {
                    (0..n).map(|i| (10_000 + i, format!("{} {}", gen::rand_word(&mut cx.rng, &alpha, 3, 8), dom), i % 50)).collect()
                };
                let mut targets: Vec<Rec> = vec![];
                for t in 0..5 {
                    let s2 = gen::rand_word(&mut cx.rng, &alpha, 2, 2);
                    let tail = gen::rand_word(&mut cx.rng, &alpha, 3, 6);
                    let title = match t {
                        0 => format!("{}-{} {}", p2, s2, tail),
                        1 => format!("{}{} {}", p2, s2, tail),
                        2 => format!("{} {}{}", tail, p2, gen::rand_word(&mut cx.rng, &alpha, 3, 5)),
                        3 => format!("{}{} {}", p2, gen::rand_word(&mut cx.rng, &alpha, 4, 7), s2),
                        _ => gen::rand_title(&mut cx.rng, lang, 3),
                    };
                    targets.push((t + 1, title, 60 + t));
                }
                if n > 60_000 {
                    targets.truncate(1);
                    targets.push((90, format!("{}{}", pair.0, pair.1), 70));
                    targets.push((91, format!("{}{} {}", pair.0, pair.1, gen::rand_word(&mut cx.rng, &alpha, 3, 5)), 71));
                }
                let at = cx.rng.below(recs.len());
                for (k, t) in targets.iter().enumerate() {
                    recs.insert((at + k * 37) % recs.len(), t.clone());
                }
                // one title stored under many ids: every one of them ties on every count a candidate list could use
                let dup_title = format!("{} {}", gen::rand_word(&mut cx.rng, &alpha, 4, 8), dom);
                let dups = *cx.rng.pick(&[25usize, 130, 300]);
                for j in 0..dups {
                    let at = cx.rng.below(recs.len());
                    recs.insert(at, (20_000 + j, dup_title.clone(), 7));
                }
                for _ in 0..4 {
                    targets.push((20_000 + cx.rng.below(dups), dup_title.clone(), 7));
                }
                // half of the catalogues are built in one go; the others answer a search while they are small
                // and have a small limit, then grow to full size and get limit = N (buffers or budgets sized at
                // the first search would show)
                let staged = idx % 2 == 1;
                let st = if staged {
                    let l1 = *cx.rng.pick(&[1usize, 2, 10]);
                    let mut st = St::sentinel(lang, l1);
                    let first = cx.rng.range(1, 5);
                    for r in &recs[..first] {
                        st.add(r);
                    }
                    cx.ctx(format!("big staged lang={} first search on {} records, limit {}", lang, first, l1));
                    let _ = st.search(&dom);
                    let _ = st.search(&recs[0].1);
                    for r in &recs[first..] {
                        st.add(r);
                    }
                    st.store.limit = recs.len();
                    cx.count("catalogues searched while small, then grown and given limit = N");
                    st
                } else {
                    St::build_sentinel(lang, &recs, recs.len())
                };
                let how = if staged { "searched once while it held 1-5 records under limit 1/2/10, then grown; " } else { "" };
                let mut st = st;
                let relimit = idx % 4 >= 2;
                if relimit {
                    cx.count("catalogues whose limit was lowered for one search of the title and raised again");
                }
                for t in &targets {
                    if relimit {
                        // the same words searched under a small limit just before (nothing added in between), then limit = N again
                        st.store.limit = *cx.rng.pick(&[1usize, 2, 10]);
                        cx.ctx(format!("big lang={} search {:?} under limit {}", lang, t.1, st.store.limit));
                        let _ = st.search(&t.1);
                        st.store.limit = recs.len();
                    }
                    self.check_record(cx, &mut st, &json!(format!("{}{} records '<random word> {}' plus {} ids titled {:?} plus {:?}, limit = N", how, n, dom, dups, dup_title, &targets[..targets.len().min(5)])), t, &mut done);
                }
                cx.count("catalogues of 4200-9000 records dominated by one word");
            }
            "corpus" => {
                let lang: &'static str = if idx % 2 == 0 { "en" } else { "none" };
                let k = if cx.tier == Tier::Thorough { (idx / 2) as usize } else { cx.rng.below(3285) };
                with_corpus_store_mut(lang, |st, recs| {
                    let r = &recs[k % recs.len()];
                    self.check_record(cx, st, &json!("whole e-commerce corpus (harness/data/ecommerce.tsv), limit = N"), r, &mut done);
                });
                cx.count("corpus-store records");
            }
            _ => {}
        }
    }
    fn assumptions(&self) -> Vec<&'static str> {
        vec![
            "title words are taken from the public tokeniser's output (tokenize_record), as the property text does",
            "derived queries are used only when tokenize_query maps them back to exactly the intended words (normalisation-stable)",
        ]
    }
}
