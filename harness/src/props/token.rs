//! C15 (tokenisation invariants) and C11 (case / composition form / accents do not matter).

use crate::common::*;
use crate::fw::*;
use crate::gen;
use crate::oracle;
use crate::props::finds::corpus_recs;
use lucid_suggest_core::*;
use serde_json::json;

#[derive(Clone, Copy, PartialEq, Eq)]
pub enum Which {
    Invariants, // C15
    Variants,   // C11
}

pub struct Token(pub Which);

/// The 14-symbol adversarial alphabet of a language (DESIGN.md section 7, C15).
pub fn adversarial_alphabet(lang: &str) -> Vec<&'static str> {
    let (letter, capital, mark, expanding, composed, base) = match lang {
        "de" => ("a", "B", "\u{308}", "ß", "ö", "o"),
        "xd" => ("a", "B", "\u{301}", "ß", "é", "e"),
        "es" => ("a", "B", "\u{301}", "ß", "ñ", "e"),
        "fr" => ("a", "B", "\u{301}", "œ", "é", "e"),
        "pt" => ("a", "B", "\u{303}", "ß", "ã", "a"),
        "ru" => ("а", "Б", "\u{308}", "ß", "ё", "е"),
        "xk" => ("か", "B", "\u{3099}", "ゟ", "が", "き"),
        "xc" => ("a", "B", "\u{308}", "ß", "ö", "o"),
        "xr" => ("a", "B", "\u{301}", "ß", "é", "e"),
        _ => ("a", "B", "\u{301}", "ß", "é", "e"),
    };
    let mut a = vec![letter, capital, "1", " ", "-", "'", "\0", "\u{a0}", mark, expanding, composed, base, "ǅ", "𝐀"];
    if lang == "xk" || lang == "xc" {
        // a singleton composition: one character replaced by one other character (length unchanged)
        a.push("\u{212b}");
    }
    if lang == "xr" {
        // a separator that the language's reductions lengthen
        a.push("\u{2026}");
    }
    if lang == "xc" {
        // a character the language's compositions delete
        a.push("\u{ad}");
    }
    if lang == "de" || lang == "xd" {
        // the capital form of the expanding letter (its own table entry; its std upper-casing is not this character)
        a.push("ẞ");
    }
    a
}

fn check_both(cx: &mut Cx, lang: &'static str, lobj: &Lang, input: &str) {
    for is_query in [false, true].iter() {
        cx.ctx(format!("C15 lang={} query={} input={:?}", lang, is_query, input));
        let tok = if *is_query { tokenize_query(input, lobj) } else { tokenization::tokenize_record(input, lobj) };
        cx.eval();
        if !tok.words.is_empty() {
            cx.key(hparts(&[lang, input, if *is_query { "q" } else { "r" }]));
            cx.count_max("most words in one text max ", tok.words.len() as u64);
        }
        if tok.source.iter().zip(tok.chars.iter()).any(|(a, b)| *a == '\0' && *b != '\0') {
            cx.count("texts with padding");
        }
        if tok.words.iter().any(|w| w.stem < w.slice.1 - w.slice.0) {
            cx.count("texts with a stemmed word");
        }
        if *is_query && tok.words.last().map(|w| !w.fin).unwrap_or(false) {
            cx.count("queries with unfinished last word");
        }
        if tok.source.len() != input.chars().count() {
            cx.count("texts whose length changed under normalisation");
        }
        if let Some((clause, why)) = oracle::check_tok(lang, input, &tok, *is_query) {
            cx.fail_sig(
                "tokenisation-invariant",
                format!("tokenisation-invariant:{}", clause),
                json!({"lang": lang, "tokeniser": if *is_query { "query" } else { "record" }, "input": input, "clause": clause, "why": why,
                       "source": s(&tok.source), "chars": s(&tok.chars), "words": tok.words.iter().map(|w| json!([w.slice.0, w.slice.1, w.stem, w.fin])).collect::<Vec<_>>()}),
            );
        } else if cx.want_sample() && tok.words.len() >= 2 && cx.rng.chance(1, 50) {
            cx.sample(|| json!({"lang": lang, "tokeniser": if *is_query { "query" } else { "record" }, "input": input, "chars": s(&tok.chars),
                                "words": tok.words.iter().map(|w| json!([w.slice.0, w.slice.1, w.stem, w.fin])).collect::<Vec<_>>()}));
        }
    }
}

// ------------------------------------------------------------------------------------------------
// C11

fn one_to_one_case(c: char) -> Option<char> {
    // the other-case form of a letter whose case mapping is one-to-one both ways
    if c.is_lowercase() {
        let u: Vec<char> = c.to_uppercase().collect();
        if u.len() == 1 && u[0] != c && u[0].to_lowercase().collect::<Vec<_>>() == vec![c] {
            return Some(u[0]);
        }
    } else if c.is_uppercase() {
        let l: Vec<char> = c.to_lowercase().collect();
        if l.len() == 1 && l[0] != c && l[0].to_uppercase().collect::<Vec<_>>() == vec![c] {
            return Some(l[0]);
        }
    }
    None
}

fn accented_function_words(lang: &str) -> Vec<&'static str> {
    match lang {
        "de" => vec!["für", "während", "bloß", "über", "Für", "BLOSS"],
        "xd" => vec!["für", "während", "über", "Für"],
        "fr" => vec!["à", "où", "après", "derrière", "malgré", "opposé", "ô", "À"],
        "es" => vec!["según", "más", "próximo", "vía", "Más"],
        "pt" => vec!["não", "às", "até", "além", "atrás", "porém", "então", "próximo"],
        "ru" => vec!["её", "ещё", "путём", "Путём"],
        "xk" => vec!["が", "の", "か\u{3099}"],
        "xr" => vec!["på", "außer", "Außer", "zu"],
        _ => vec!["the", "of", "The"],
    }
}

impl Token {
    /// C11 for a language that exists only in this case: a user of the library defines it through the public `Lang` API from
    /// a menu of contracting compositions (base + mark -> letter), expanding compositions (ligature -> two to four letters),
    /// sometimes a length-preserving one, sometimes foldings of the composed letters. Whatever the mix, a query (a title)
    /// written with precomposed letters and the same text with some of them decomposed are the same query (title).
    fn user_lang_case(&self, cx: &mut Cx) {
        const CONTRACT: [(&str, &str, &str); 7] = [("e\u{301}", "é", "e"), ("a\u{308}", "ä", "a"), ("o\u{303}", "õ", "o"), ("c\u{327}", "ç", "c"), ("か\u{3099}", "が", "か"), ("は\u{309a}", "ぱ", "は"), ("ש\u{5c1}", "\u{fb2a}", "ש")];
        const EXPAND: [(&str, &str); 5] = [("ゟ", "より"), ("ŉ", "ʼn"), ("ĳ", "ij"), ("ﬃ", "ffi"), ("㍿", "株式会社")];
        let mut lang = Lang::new();
        let mut contract: Vec<(&str, &str, &str)> = vec![];
        for e in CONTRACT.iter() {
            if cx.rng.chance(1, 2) {
                contract.push(*e);
            }
        }
        if contract.is_empty() {
            contract.push(*cx.rng.pick(&CONTRACT));
        }
        let mut expand: Vec<(&str, &str)> = vec![];
        if cx.rng.chance(3, 4) {
            for e in EXPAND.iter() {
                if cx.rng.chance(1, 2) {
                    expand.push(*e);
                }
            }
        }
        for (from, to, _) in &contract {
            lang.add_unicode_composition(from, to);
        }
        for (from, to) in &expand {
            lang.add_unicode_composition(from, to);
        }
        let keeps_length = cx.rng.chance(1, 4);
        if keeps_length {
            lang.add_unicode_composition("\u{212b}", "Å");
        }
        let folds = cx.rng.chance(1, 2);
        if folds {
            for (_, to, base) in &contract {
                lang.add_unicode_reduction(to, base);
            }
        }
        if !expand.is_empty() && !keeps_length {
            cx.count("user-defined languages with contracting and expanding compositions and no length-preserving one");
        }
        let desc = json!({"compositions": contract.iter().map(|c| (c.0, c.1)).chain(expand.iter().cloned()).chain(if keeps_length { vec![("\u{212b}", "Å")] } else { vec![] }).collect::<Vec<_>>(),
                          "reductions": if folds { contract.iter().map(|c| (c.1, c.2)).collect::<Vec<_>>() } else { vec![] }});
        let plain: Vec<char> = cv("abdefgijnost").into_iter().chain(cv("さかみはなよりし")).chain(cv("שלמ")).collect();
        let special: Vec<&str> = contract.iter().map(|c| c.1).chain(expand.iter().map(|e| e.0)).collect();
        let word = |rng: &mut Rng| -> String {
            let n = rng.range(1, 7);
            (0..n).map(|_| if rng.chance(1, 3) { rng.pick(&special).to_string() } else { rng.pick(&plain).to_string() }).collect::<Vec<_>>().concat()
        };
        let nt = cx.rng.range(1, 3);
        let titles: Vec<String> = (0..nt).map(|_| (0..cx.rng.range(1, 3)).map(|_| word(&mut cx.rng)).collect::<Vec<_>>().join(*cx.rng.pick(&[" ", " ", "-", ", "]))).collect();
        // some of the composed letters written as base + mark
        let decompose = |rng: &mut Rng, text: &str, all: bool| -> String {
            let mut out = String::new();
            for c in text.chars() {
                match contract.iter().find(|e| e.1.chars().next() == Some(c)) {
                    Some(e) if all || rng.chance(1, 2) => out.push_str(e.0),
                    _ => out.push(c),
                }
            }
            out
        };
        let build = |ts: &[String]| -> Store {
            let mut st = Store::new();
            st.limit = 10;
            st.highlight_with(("[", "]"));
            for (i, t) in ts.iter().enumerate() {
                st.add(Record::new(i + 1, t, 10 + i, &lang));
            }
            st
        };
        let ask = |st: &Store, q: &str| -> Hits { st.search(&tokenize_query(q, &lang).to_ref()).into_iter().map(|r| (r.id, r.title)).collect() };
        let st = build(&titles);
        let titles_dec: Vec<String> = titles.iter().map(|t| decompose(&mut cx.rng, t, false)).collect();
        let st_dec = build(&titles_dec);
        for _ in 0..4 {
            let t: Vec<char> = cx.rng.pick(&titles).chars().collect();
            let a = cx.rng.below(t.len());
            let b = cx.rng.range(a + 1, t.len());
            let q: String = if cx.rng.chance(1, 3) { s(&t) } else { s(&t[a..b]) };
            let v = if cx.rng.chance(1, 3) { decompose(&mut cx.rng, &q, true) } else { decompose(&mut cx.rng, &q, false) };
            cx.ctx(format!("C11 user-defined language {} titles={:?} q={:?} variant={:?}", desc, titles, q, v));
            let base = ask(&st, &q);
            if v != q {
                let got = ask(&st, &v);
                cx.eval();
                cx.count("variants of a query in a user-defined language");
                if !base.is_empty() {
                    cx.key(hparts(&["userlang", &desc.to_string(), &format!("{:?}", titles), &q, &v]));
                }
                if got != base {
                    cx.fail("variant-changes-result", json!({"language": "defined by the case through the public Lang API", "tables": desc, "titles": titles, "query": q, "variant": v, "kind": "decomposed", "result": base, "variant_result": got}));
                    return;
                }
            }
            if titles_dec != titles {
                let got = ask(&st_dec, &q);
                cx.eval();
                cx.count("stored-decomposed comparisons in a user-defined language");
                if got != base {
                    cx.fail("decomposed-title-changes-result", json!({"language": "defined by the case through the public Lang API", "tables": desc, "titles": titles, "titles_stored_decomposed": titles_dec, "query": q, "result": base, "decomposed_store_result": got}));
                    return;
                }
            }
        }
    }

    /// C15 for a language drawn at random (`userlang.rs`): one language object tokenises a dozen texts one after the other,
    /// as records and as queries; every clause of the property, the composed input coming from the case's own table.
    fn user_lang_invariants(&self, cx: &mut Cx) {
        let ul = crate::userlang::UserLang::random(&mut cx.rng);
        let desc = ul.desc();
        cx.count("languages drawn at random");
        for k in 0..12 {
            let input = match cx.rng.below(12) {
                0 => ul.text(&mut cx.rng, 40),
                1 => ul.word(&mut cx.rng, 2),
                _ => ul.text(&mut cx.rng, 5),
            };
            let want = ul.composed(&cv(&input));
            if want.len() != input.chars().count() {
                cx.count("texts whose length changed under a random language's compositions");
            }
            for is_query in [false, true].iter() {
                cx.ctx(format!("C15 user-defined language {} text {} query={} input={:?}", desc, k, is_query, input));
                let tok = if *is_query { tokenize_query(&input, &ul.lang) } else { tokenization::tokenize_record(&input, &ul.lang) };
                cx.eval();
                cx.count("texts tokenised by a language drawn at random");
                if !tok.words.is_empty() {
                    cx.key(hparts(&["userlang", &desc.to_string(), &input, if *is_query { "q" } else { "r" }]));
                }
                if tok.source.iter().zip(tok.chars.iter()).any(|(a, b)| *a == '\0' && *b != '\0') {
                    cx.count("texts with padding under a random language");
                }
                if let Some((clause, why)) = oracle::check_tok_composed(&want, &tok, *is_query) {
                    cx.fail_sig(
                        "tokenisation-invariant",
                        format!("tokenisation-invariant:{}", clause),
                        json!({"language": "defined by the case through the public Lang API", "tables": desc, "tokeniser": if *is_query { "query" } else { "record" }, "input": input, "clause": clause, "why": why,
                               "source": s(&tok.source), "chars": s(&tok.chars), "words": tok.words.iter().map(|w| json!([w.slice.0, w.slice.1, w.stem, w.fin])).collect::<Vec<_>>()}),
                    );
                    return;
                }
            }
        }
    }

    fn variants_case(&self, cx: &mut Cx, lang: &'static str) {
        let mut acc = oracle::accents(lang);
        acc.extend(oracle::reduced_pairs(lang));
        let exp = oracle::expanding_table(lang);
        let base = gen::lower_alphabet(lang);
        let fw = accented_function_words(lang);
        let accented: Vec<char> = acc.iter().map(|a| a.composed).chain(exp.iter().map(|e| e.0)).collect();
        let sufs = gen::suffixes(lang);
        let mut gen_word = |rng: &mut Rng| -> String {
            let n = rng.range(1, 9);
            let mut w: String = (0..n)
                .map(|_| {
                    let c = if !accented.is_empty() && rng.chance(1, 3) { *rng.pick(&accented) } else { *rng.pick(&base) };
                    if rng.chance(1, 8) { one_to_one_case(c).unwrap_or(c) } else { c }
                })
                .collect();
            if rng.chance(1, 5) {
                // an ending the stemmer strips (several of them accented): folded and unfolded spellings must stem alike
                w.push_str(*rng.pick(&sufs));
            }
            w
        };
        let mut titles: Vec<String> = vec![];
        let long_titles = cx.rng.chance(1, 8);
        if long_titles {
            cx.count("stores with titles of 25-40 words");
        }
        for _ in 0..cx.rng.range(1, 5) {
            let k = if long_titles { cx.rng.range(25, 40) } else { cx.rng.range(1, 3) };
            let ws: Vec<String> = (0..k)
                .map(|_| match cx.rng.below(6) {
                    0 => cx.rng.pick(&fw).to_string(),
                    1 => {
                        let v = gen::vocab(lang);
                        let w = cx.rng.pick(&v).to_string();
                        // C11 quantifies over letters with one-to-one case mappings from the language's own
                        // inventory, written precomposed: other vocabulary words (free-standing combining marks,
                        // title-case digraphs, dotted capital I, ligatures ...) are outside its quantifier
                        let inside = w.chars().all(|c| {
                            c.is_ascii_digit()
                                || accented.contains(&c)
                                || base.contains(&c)
                                || one_to_one_case(c).map(|l| base.contains(&l)).unwrap_or(false)
                                || (c.is_ascii() && !c.is_ascii_alphabetic())
                        });
                        if inside { w } else { gen_word(&mut cx.rng) }
                    }
                    _ => gen_word(&mut cx.rng),
                })
                .collect();
            titles.push(ws.join(*cx.rng.pick(&[" ", " ", "-", ", "])));
        }
        let recs: Vec<Rec> = titles.iter().enumerate().map(|(i, t)| (i, t.clone(), i * 3 + 1)).collect();
        let limit = *cx.rng.pick(&[10, 10, 2, 1]);
        let st = St::build_sentinel(lang, &recs, limit);
        for _ in 0..6 {
            let t = cv(cx.rng.pick(&titles[..]).as_str());
            let a = cx.rng.below(t.len());
            let b = a + 1 + cx.rng.below(t.len() - a);
            let mut q: Vec<char> = t[a..b].to_vec();
            if cx.rng.chance(1, 3) {
                let p = cx.rng.below(q.len());
                if q[p].is_alphabetic() {
                    q[p] = *cx.rng.pick(&base);
                }
            }
            let qs = s(&q);
            let base_res = st.search(&qs);
            let mut var = String::new();
            let mut kinds: Vec<&'static str> = vec![];
            if cx.rng.chance(1, 3) {
                // (characters that split words, and characters that are only stripped from word edges, glued to the first word)
                var.push_str(*cx.rng.pick(&[" ", "-", "  ", ". ", "\t", "!", "'", "\"", "#", "\u{bf}", "\u{ab}", "\u{feff}", "'\"", "$ ", "\u{201e}"]));
                kinds.push("separator prefix");
            }
            for &c in &q {
                let mut piece: Vec<char> = vec![c];
                if let Some(e) = oracle::reduced_pairs(lang).iter().find(|e| e.composed == c) {
                    // both spellings are in the reduction table: decomposed, or folded as the table says
                    match cx.rng.below(3) {
                        0 => {
                            piece = vec![e.base, e.mark];
                            kinds.push("decomposed");
                            cx.count(&format!("letter {} decomposed", c));
                        }
                        1 => {
                            if let Some(x) = exp.iter().find(|x| x.0 == c) {
                                piece = cv(x.1);
                                kinds.push("folded");
                                cx.count(&format!("letter {} folded", c));
                            }
                        }
                        _ => {}
                    }
                } else if let Some(e) = {
                    let all: Vec<&oracle::Accent> = acc.iter().filter(|e| e.composed == c).collect();
                    if all.is_empty() { None } else { Some(all[cx.rng.below(all.len())]) }
                } {
                    // (a language that composes without folding knows no "folded" spelling)
                    match cx.rng.below(if oracle::folds_composed(lang) { 3 } else { 1 }) {
                        0 => {
                            piece = vec![e.base, e.mark];
                            kinds.push("decomposed");
                            cx.count(&format!("letter {} decomposed", c));
                        }
                        1 => {
                            // (as its own entry of the reduction table says, when it has one)
                            piece = match exp.iter().find(|x| x.0 == c) {
                                Some(x) => cv(x.1),
                                None => vec![e.base],
                            };
                            kinds.push("folded");
                            cx.count(&format!("letter {} folded", c));
                        }
                        _ => {}
                    }
                } else if let Some(e) = exp.iter().find(|e| e.0 == c) {
                    // (an entry whose result the table would reduce further - a chain - has no equivalent folded spelling:
                    // one pass applies one step)
                    let chained = e.1.chars().any(|x| oracle::fold(lang, x).is_some());
                    if !chained && cx.rng.chance(1, 2) {
                        piece = cv(e.1);
                        kinds.push("folded");
                        cx.count(&format!("letter {} folded", c));
                    }
                }
                if cx.rng.chance(1, 2) {
                    let recased: Vec<char> = piece.iter().map(|x| one_to_one_case(*x).unwrap_or(*x)).collect();
                    if recased != piece {
                        kinds.push("re-cased");
                    }
                    piece = recased;
                }
                var.extend(piece);
            }
            if var == qs {
                continue;
            }
            if var.chars().count() > 128 {
                cx.count("variants longer than 128 characters");
            }
            cx.ctx(format!("C11 lang={} titles={:?} q={:?} var={:?}", lang, titles, qs, var));
            let var_res = st.search(&var);
            cx.eval();
            kinds.sort();
            kinds.dedup();
            for k in &kinds {
                cx.count(&format!("variants {}", k));
            }
            if !base_res.is_empty() {
                cx.count("variants of a query with hits");
                cx.key(hparts(&[lang, &format!("{:?}", titles), &qs, &var]));
            }
            if var_res != base_res {
                cx.fail("variant-changes-result", json!({"lang": lang, "records": recs, "limit": limit, "query": qs, "variant": var, "kinds": kinds, "result": base_res, "variant_result": var_res}));
            } else if cx.want_sample() && !base_res.is_empty() && kinds.len() >= 2 {
                cx.sample(|| json!({"lang": lang, "titles": titles, "query": qs, "variant": var, "kinds": kinds, "hits": base_res.len()}));
            }
        }
        // stored decomposed vs stored precomposed (for the letters the language COMPOSES: only those come back precomposed)
        let composing = oracle::accents(lang);
        let recs_d: Vec<Rec> = recs
            .iter()
            .map(|(i, t, r)| {
                let d: String = t.chars().map(|c| composing.iter().find(|e| e.composed == c).map(|e| format!("{}{}", e.base, e.mark)).unwrap_or_else(|| c.to_string())).collect();
                (*i, d, *r)
            })
            .collect();
        if recs_d != recs {
            let st_d = St::build_sentinel(lang, &recs_d, limit);
            for _ in 0..3 {
                let t = cv(cx.rng.pick(&titles[..]).as_str());
                let b = 1 + cx.rng.below(t.len());
                let qs = s(&t[..b]);
                cx.ctx(format!("C11 stored-nfd lang={} titles={:?} q={:?}", lang, titles, qs));
                let r1 = st.search(&qs);
                let r2 = st_d.search(&qs);
                cx.eval();
                cx.count("stored-decomposed comparisons");
                if !r1.is_empty() {
                    cx.key(hparts(&[lang, &format!("{:?}", titles), &qs, "nfd"]));
                }
                if r1 != r2 {
                    cx.fail("decomposed-title-changes-result", json!({"lang": lang, "records": recs, "decomposed_records": recs_d, "query": qs, "result": r1, "decomposed_result": r2}));
                }
            }
        }
    }
}

impl Prop for Token {
    fn id(&self) -> &'static str {
        match self.0 {
            Which::Invariants => "C15",
            Which::Variants => "C11",
        }
    }
    fn rule(&self) -> &'static str {
        match self.0 {
            Which::Invariants => "both tokenisers on: every string up to a length bound (4 quick, 5 thorough) over a 14-symbol adversarial alphabet per language (letter, capital, digit, space, '-', apostrophe, NUL, NBSP, combining mark, expanding letter, precomposed accent and its base letter, title-case digraph, caseless capital) - exhaustive; random hostile strings up to 60 symbols; every corpus title and vocabulary word. All clauses of the property are asserted on the returned arrays. Distinct by (language, input, tokeniser); non-trivial = at least one word",
            Which::Variants => "stores of 1-4 titles over base letters + the language's own accent inventory (+ accented function words), queries = substrings with optional typo; each query is re-written with a random subset of letters re-cased (one-to-one case mappings only), decomposed, accent-folded, and/or separator-prefixed and must give the identical hit list and highlighted titles; stores with decomposed titles must answer like the precomposed ones; the same for languages defined per case through the public Lang API (contracting, expanding, length-preserving compositions, foldings drawn from a menu). Non-trivial = base result non-empty and variant != query; distinct by (language, titles, query, variant)",
        }
    }
    fn streams(&self) -> Vec<Stream> {
        match self.0 {
            Which::Invariants => vec![Stream::new("exhaustive", NL * 15, NL * 15), Stream::new("random", 32000, 1600000), Stream::new("corpus", 64, 64), Stream::new("boundary", NL * 4, NL * 16), Stream::new("codepoints", 256, 256), Stream::new("userlang", 8000, 400000)],
            Which::Variants => vec![Stream::new("stores", 32000, 1600000), Stream::new("userlang", 8000, 400000)],
        }
    }
    fn floors(&self) -> Vec<(&'static str, u64, u64)> {
        match self.0 {
            Which::Invariants => vec![("exhaustive strings", 250000, 4000000), ("texts with padding", 5000, 50000), ("texts with a stemmed word", 1000, 10000), ("queries with unfinished last word", 50000, 500000), ("texts whose length changed under normalisation", 5000, 50000), ("random hostile strings", 5000, 50000), ("random texts of 100-600 symbols", 1000, 10000), ("corpus titles", 3000, 3000), ("texts with a piece at a power-of-two position", 1500, 6000), ("code points tokenised", 3000000, 13000000)],
            Which::Variants => vec![("variants decomposed", 2000, 20000), ("variants folded", 2000, 20000), ("variants re-cased", 5000, 50000), ("variants separator prefix", 2000, 20000), ("variants of a query with hits", 5000, 50000), ("stored-decomposed comparisons", 1000, 10000), ("variants longer than 128 characters", 300, 3000), ("variants of a query in a user-defined language", 3000, 30000), ("user-defined languages with contracting and expanding compositions and no length-preserving one", 1000, 10000), ("stored-decomposed comparisons in a user-defined language", 5000, 50000)],
        }
    }
    fn dyn_floors(&self) -> Vec<(String, u64, u64)> {
        match self.0 {
            Which::Variants => {
                // every letter of every table must be seen (thorough), most of them in quick
                let mut out = vec![];
                for l in LANGS.iter() {
                    for a in oracle::accents(l) {
                        out.push((format!("letter {} decomposed", a.composed), 1, 10));
                        out.push((format!("letter {} folded", a.composed), 1, 10));
                    }
                    for e in oracle::expanding_table(l) {
                        out.push((format!("letter {} folded", e.0), 1, 10));
                    }
                }
                out.sort();
                out.dedup();
                out
            }
            _ => vec![],
        }
    }
    fn run(&self, cx: &mut Cx, stream: &str, idx: u64) {
        match (self.0, stream) {
            (Which::Invariants, "exhaustive") => {
                let lang = LANGS[(idx % NL) as usize];
                let head = (idx / NL) as usize; // 0..14: first symbol, 14: the empty string
                let alpha = adversarial_alphabet(lang);
                let maxlen = if cx.tier == Tier::Thorough { 5 } else { 4 };
                let lobj = take_lang(lang);
                let mut total = 0u64;
                // case 14 of a language: the empty string, and the symbols beyond the 14th as first symbol
                let heads: Vec<usize> = if head == 14 { (14..alpha.len()).collect() } else { vec![head] };
                if head == 14 {
                    check_both(cx, lang, &lobj, "");
                    total += 1;
                }
                for head in heads {
                    for len in 1..=maxlen {
                        let tail = len - 1;
                        for c in 0..alpha.len().pow(tail as u32) {
                            let mut text = String::from(alpha[head]);
                            let mut x = c;
                            for _ in 0..tail {
                                text.push_str(alpha[x % alpha.len()]);
                                x /= alpha.len();
                            }
                            check_both(cx, lang, &lobj, &text);
                            total += 1;
                            if cx.viols.len() >= 100 {
                                break;
                            }
                        }
                    }
                }
                give_lang(lang, lobj);
                cx.count_n("exhaustive strings", total);
            }
            (Which::Invariants, "random") => {
                let lang = LANGS[(idx % NL) as usize];
                let lobj = take_lang(lang);
                let text = match cx.rng.below(9) {
                    8 => {
                        // long texts: beyond every initial buffer capacity (20) several times over
                        cx.count("random texts of 100-600 symbols");
                        let n = cx.rng.range(100, 600);
                        if cx.rng.chance(1, 2) {
                            (0..n).map(|_| *cx.rng.pick(gen::HOSTILE)).collect()
                        } else {
                            let mut t = String::new();
                            for _ in 0..n / 6 {
                                t.push_str(&gen::any_word(&mut cx.rng, lang));
                                t.push_str(*cx.rng.pick(gen::SEPS));
                            }
                            t
                        }
                    }
                    0 | 4 => gen::rand_title(&mut cx.rng, lang, 6),
                    1 | 5 => {
                        let alpha = adversarial_alphabet(lang);
                        let n = cx.rng.range(5, 40);
                        (0..n).map(|_| *cx.rng.pick(&alpha)).collect()
                    }
                    _ => gen::hostile(&mut cx.rng, 60),
                };
                check_both(cx, lang, &lobj, &text);
                // the same language object is handed the once-composed spelling of that text next (a text that equals what
                // the previous call produced)
                let once: String = oracle::compose(lang, &cv(&text)).into_iter().collect();
                if once != text {
                    check_both(cx, lang, &lobj, &once);
                    cx.count("texts followed by their own once-composed spelling");
                }
                // ... and the once-reduced spelling (what its reductions made of it: a chained table reduces that further)
                let reduced = oracle::reduce_once(lang, &text);
                if reduced != text && reduced != once {
                    check_both(cx, lang, &lobj, &text);
                    check_both(cx, lang, &lobj, &reduced);
                    cx.count("texts followed by their own once-reduced spelling");
                }
                give_lang(lang, lobj);
                cx.count("random hostile strings");
            }
            (Which::Invariants, "codepoints") => {
                // EVERY Unicode scalar value (1 112 064 of them, 4352 per case), inside a word, at a word start and on its own,
                // through both tokenisers: three languages per case in the quick tier, all of them in the thorough tier
                let langs: Vec<&'static str> = if cx.tier == Tier::Thorough { LANGS.to_vec() } else { (0..3).map(|j| LANGS[((idx as usize) + j * 4) % LANGS.len()]).collect() };
                let lo = idx as u32 * 4352;
                for lang in langs {
                    let lobj = take_lang(lang);
                    for v in lo..lo + 4352 {
                        if let Some(c) = std::char::from_u32(v) {
                            let text = format!("x{}y {}z {}", c, c, c);
                            check_both(cx, lang, &lobj, &text);
                            cx.count("code points tokenised");
                            if cx.viols.len() >= 50 {
                                break;
                            }
                        }
                    }
                    give_lang(lang, lobj);
                }
            }
            (Which::Invariants, "boundary") => {
                // long texts in which a decomposed letter / an expanding letter / a separator sits exactly at, before and after
                // every power of two from 64 to 65 536 (block-wise or windowed processing meets its edges there)
                let lang = LANGS[(idx % NL) as usize];
                let lobj = take_lang(lang);
                let acc = oracle::accents(lang);
                let exp = oracle::expanding_table(lang);
                let fill = *cx.rng.pick(&["a", "b", "ab", "a a", "é"]);
                let piece: String = if !acc.is_empty() && cx.rng.chance(2, 3) {
                    let a = cx.rng.pick(&acc);
                    format!("{}{}", a.base, a.mark)
                } else if !exp.is_empty() && cx.rng.chance(1, 2) {
                    cx.rng.pick(&exp).0.to_string()
                } else {
                    cx.rng.pick(&["e\u{301}", " ", "-x", "\0", "ǅ"]).to_string()
                };
                for b in [64usize, 128, 256, 512, 1024, 2048, 4096, 8192, 16384, 32768, 65536].iter() {
                    for d in [-2i64, -1, 0, 1].iter() {
                        let at = (*b as i64 + d) as usize;
                        let fc: Vec<char> = fill.chars().collect();
                        let mut text: String = (0..at).map(|k| fc[k % fc.len()]).collect();
                        text.push_str(&piece);
                        if cx.rng.chance(1, 2) {
                            text.push_str(&piece);
                            text.push('z');
                        }
                        check_both(cx, lang, &lobj, &text);
                        cx.count("texts with a piece at a power-of-two position");
                    }
                }
                give_lang(lang, lobj);
            }
            (Which::Invariants, "corpus") => {
                // corpus titles in en/none, vocabulary of every language
                let recs = corpus_recs();
                for (k, r) in recs.iter().enumerate() {
                    if k as u64 % 64 != idx {
                        continue;
                    }
                    for lang in ["en", "none", "fr"].iter() {
                        let lobj = take_lang(lang);
                        check_both(cx, LANGS.iter().find(|l| *l == lang).unwrap(), &lobj, &r.1);
                        give_lang(lang, lobj);
                    }
                    cx.count("corpus titles");
                }
                if idx < NL {
                    let lang = LANGS[idx as usize];
                    let lobj = take_lang(lang);
                    for w in gen::vocab(lang) {
                        check_both(cx, lang, &lobj, w);
                        cx.count("vocabulary words");
                    }
                    give_lang(lang, lobj);
                }
            }
            (Which::Variants, "userlang") => self.user_lang_case(cx),
            (Which::Invariants, "userlang") => self.user_lang_invariants(cx),
            (Which::Variants, _) => {
                let lang = LANGS[(idx % NL) as usize];
                self.variants_case(cx, lang);
            }
            _ => {}
        }
    }
    fn assumptions(&self) -> Vec<&'static str> {
        match self.0 {
            Which::Invariants => vec![
                "'upper-case character' = a capital that has a different lower-case form (caseless capitals such as U+1D400 cannot be lowered by any implementation)",
                "the composed input is computed by the harness's own composer (DESIGN.md Appendix A)",
            ],
            Which::Variants => vec!["accent inventories, decompositions and folds are the harness's frozen specification tables, not read from the repository"],
        }
    }
}
