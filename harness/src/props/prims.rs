//! C16 (distance laws), C17 (Jaccard), C18 (trigram index candidates), C19 (unchecked fast paths).
//! C16/C17/C19 drive private types through the guarded re-exports (hook H1) and exist only in
//! hook builds.

use crate::common::*;
use crate::fw::*;
use crate::gen;
use crate::oracle;
use crate::props::finds::{corpus_recs, with_corpus_store};
use lucid_suggest_core::lang::CharClass;
use lucid_suggest_core::*;
use serde_json::json;
use std::collections::BTreeSet;

#[derive(Clone, Copy, PartialEq, Eq)]
pub enum Which {
    Distance, // C16
    Jaccard,  // C17
    Index,    // C18
    Unchecked, // C19
}

pub struct Prims(pub Which);

fn class_of(c: char) -> CharClass {
    match c {
        'a' | 'e' | 'i' | 'o' | 'u' | 'y' => CharClass::Vowel,
        '0'..='9' => CharClass::NotAlpha,
        'x' | 'ж' | '漢' | '𝐀' | '😀' => CharClass::Any,
        _ => CharClass::Consonant,
    }
}

fn word_text(chars: &[char], classes: &[CharClass]) -> TextOwn {
    let mut t = TextOwn::from_vec(chars.to_vec());
    t.classes = classes.to_vec();
    // one word in four is "unfinished" (what the last word of a query is): the distance must not care on which
    // side such a word stands (decided by the letters, so that the same word is the same word in every call)
    let h = chars.iter().fold(0xcbf29ce484222325u64, |h, c| (h ^ *c as u64).wrapping_mul(0x100000001b3));
    t.words[0].fin = h % 4 != 1;
    t
}

/// One text holding both words back to back (word 0 = `c1`, word 1 = `c2`), as the words of a title share their buffers.
fn two_word_text(c1: &[char], k1: &[CharClass], c2: &[char], k2: &[CharClass]) -> TextOwn {
    let mut both = word_text(&[c1, c2].concat(), &[k1, k2].concat());
    let mut w2 = both.words[0].clone();
    both.words[0].slice = (0, c1.len());
    both.words[0].stem = c1.len();
    w2.offset = 1;
    w2.slice = (c1.len(), c1.len() + c2.len());
    w2.stem = c2.len();
    both.words.push(w2);
    both
}

fn classed(chars: &[char]) -> TextOwn {
    let classes: Vec<CharClass> = chars.iter().map(|c| class_of(*c)).collect();
    word_text(chars, &classes)
}

/// All words over `alpha` up to `maxlen`, shortest first (index 0 = empty word).
fn all_words(alpha: &[char], maxlen: usize) -> Vec<Vec<char>> {
    let mut out: Vec<Vec<char>> = vec![vec![]];
    let mut layer: Vec<Vec<char>> = vec![vec![]];
    for _ in 0..maxlen {
        let mut next = vec![];
        for w in &layer {
            for &c in alpha {
                let mut x = w.clone();
                x.push(c);
                next.push(x);
            }
        }
        out.extend(next.iter().cloned());
        layer = next;
    }
    out
}

#[cfg(lucid_suggest_verif)]
mod private {
    use super::*;

    thread_local! {
        pub static DL: DamerauLevenshtein = DamerauLevenshtein::new();
        pub static DL_ANY: DamerauLevenshtein = DamerauLevenshtein::new();
        pub static JC: Jaccard<char> = Jaccard::new();
    }

    /// All laws of C16 for one ordered pair; `deep` also compares every prefix cell.
    thread_local! {
        /// When set, classes are drawn per position instead of being tied to the character.
        pub static FREE_CLASSES: std::cell::Cell<Option<u64>> = std::cell::Cell::new(None);
    }

    fn classes_for(chars: &[char], salt: u64) -> Vec<CharClass> {
        match FREE_CLASSES.with(|f| f.get()) {
            None => chars.iter().map(|c| class_of(*c)).collect(),
            Some(seed) => chars
                .iter()
                .enumerate()
                .map(|(i, _)| match mix(seed ^ salt, i as u64) % 4 {
                    0 => CharClass::Vowel,
                    1 => CharClass::Consonant,
                    2 => CharClass::NotAlpha,
                    _ => CharClass::Any,
                })
                .collect(),
        }
    }

    pub fn check_distance(cx: &mut Cx, dl: Option<&DamerauLevenshtein>, c1: &[char], c2: &[char], deep: bool) {
        // `dl`: the long-lived instance whose history matters (None = this thread's shared instance)
        macro_rules! with_dl { ($f:expr) => { match dl { Some(d) => $f(d), None => DL.with(|d| $f(d)) } } }
        let (k1, k2) = (classes_for(c1, 1), classes_for(c2, 2));
        let t1 = word_text(c1, &k1);
        let t2 = word_text(c2, &k2);
        cx.ctx(format!("C16 {:?} {:?} classes {:?} {:?}", s(c1), s(c2), k1, k2));
        let d12 = with_dl!(|d: &DamerauLevenshtein| d.distance(&t1.view(0), &t2.view(0)));
        let cells: Vec<Vec<f64>> = if deep {
            with_dl!(|d: &DamerauLevenshtein| {
                let m = d.dists.borrow();
                (0..=c1.len()).map(|i| (0..=c2.len()).map(|j| m.get(i + 1, j + 1)).collect::<Vec<f64>>()).collect::<Vec<Vec<f64>>>()
            })
        } else {
            vec![]
        };
        // the same letters with other character classes, right after a call with the same second word: kept
        // rows / memoised state keyed by characters only would show here
        let mut reclass_err: Option<String> = None;
        if FREE_CLASSES.with(|f| f.get()).is_some() && !c1.is_empty() {
            let k1b = classes_for(c1, 3);
            let t1b = word_text(c1, &k1b);
            let got = with_dl!(|d: &DamerauLevenshtein| d.distance(&t1b.view(0), &t2.view(0)));
            let want = DamerauLevenshtein::new().distance(&t1b.view(0), &t2.view(0));
            cx.eval();
            cx.count("re-classed repeat calls");
            if got != want {
                reclass_err = Some(format!("same letters, classes {:?} instead of {:?}: {} on the used instance, {} on a fresh one", k1b, k1, got, want));
            }
            // restore the matrix state the following observations expect
            let _ = with_dl!(|d: &DamerauLevenshtein| d.distance(&t1.view(0), &t2.view(0)));
        }
        // the first word's buffer overwritten in place with other letters (same address, same length) and asked again on the
        // same instance: what the instance remembers about "the word at this address" must not pass for the new content
        if reclass_err.is_none() && !deep && !c1.is_empty() && cx.rng.chance(1, 3) {
            let mut r1 = word_text(c1, &k1);
            let _ = with_dl!(|d: &DamerauLevenshtein| d.distance(&r1.view(0), &t2.view(0)));
            let mut alt: Vec<char> = c1.to_vec();
            alt.reverse();
            if alt == c1 {
                let last = alt.len() - 1;
                alt[last] = if alt[last] == 'q' { 'z' } else { 'q' };
            }
            let ka = classes_for(&alt, 1);
            for i in 0..alt.len() {
                r1.chars[i] = alt[i];
                r1.source[i] = alt[i];
                r1.classes[i] = ka[i].clone();
            }
            let got = with_dl!(|d: &DamerauLevenshtein| d.distance(&r1.view(0), &t2.view(0)));
            let mut ta = word_text(&alt, &ka);
            ta.words[0].fin = r1.words[0].fin;
            let want = DamerauLevenshtein::new().distance(&ta.view(0), &t2.view(0));
            cx.eval();
            cx.count("calls on a word buffer overwritten in place since the call before");
            if got != want {
                reclass_err = Some(format!("the first word's buffer overwritten in place with {:?}: {} on the used instance, {} on a fresh one", s(&alt), got, want));
            }
            let _ = with_dl!(|d: &DamerauLevenshtein| d.distance(&t1.view(0), &t2.view(0)));
        }
        // the two words as words of ONE text (views into the same buffers, as the words of a title are)
        let mut shared_err: Option<String> = None;
        if !deep || c1.len() + c2.len() <= 8 {
            let both = two_word_text(c1, &k1, c2, &k2);
            let got = DamerauLevenshtein::new().distance(&both.view(0), &both.view(1));
            let same = DamerauLevenshtein::new().distance(&both.view(0), &both.view(0));
            cx.eval();
            cx.count("calls on two words of one text");
            if got != DamerauLevenshtein::new().distance(&t1.view(0), &t2.view(0)) {
                shared_err = Some(format!("as two words of one text the distance is {}", got));
            } else if same != 0.0 {
                shared_err = Some(format!("a word of a text against itself gives {}", same));
            } else if !c1.is_empty() && !c2.is_empty() {
                // the first word against the run-together view of both (same start, other length), both ways
                let joined = both.view(0).join(&both.view(1));
                let whole = word_text(&[c1, c2].concat(), &[&k1[..], &k2[..]].concat());
                let (a, b) = (DamerauLevenshtein::new().distance(&both.view(0), &joined), DamerauLevenshtein::new().distance(&joined, &both.view(0)));
                let (wa, wb) = (DamerauLevenshtein::new().distance(&t1.view(0), &whole.view(0)), DamerauLevenshtein::new().distance(&whole.view(0), &t1.view(0)));
                if a != wa || b != wb {
                    shared_err = Some(format!("a word against the run-together view starting at the same character gives {} / {} instead of {} / {}", a, b, wa, wb));
                }
                // the run-together view made by hand: the first word's view with its public `slice` widened over both words
                let mut wide = both.view(0);
                wide.slice.1 = both.view(1).slice.1;
                wide.fin = joined.fin;
                let (ha, hb) = (DamerauLevenshtein::new().distance(&both.view(0), &wide), DamerauLevenshtein::new().distance(&wide, &both.view(1)));
                let (ja, jb) = (DamerauLevenshtein::new().distance(&both.view(0), &joined), DamerauLevenshtein::new().distance(&joined, &both.view(1)));
                cx.count("calls on a view whose slice was widened after it was built");
                if shared_err.is_none() && (ha != ja || hb != jb) {
                    shared_err = Some(format!("a view widened by hand over both words gives {} / {} where the joined view gives {} / {}", ha, hb, ja, jb));
                }
            }
        }
        // the same two words as the tokeniser hands them over when a letter was expanded ('ß' -> "ss"): the ORIGINAL text
        // (`source`) carries U+0000 padding under some letters; the distance is a function of the normalised letters and
        // their classes only
        if !c1.is_empty() && shared_err.is_none() {
            let mut p1 = word_text(c1, &k1);
            let mut p2 = word_text(c2, &k2);
            for (i, x) in p1.source.iter_mut().enumerate() {
                if i % 3 == 1 {
                    *x = '\0';
                }
            }
            if let Some(x) = p2.source.last_mut() {
                *x = '\0';
            }
            let got = DamerauLevenshtein::new().distance(&p1.view(0), &p2.view(0));
            cx.eval();
            cx.count("calls on words whose original text is padded");
            if got != DamerauLevenshtein::new().distance(&t1.view(0), &t2.view(0)) {
                shared_err = Some(format!("with U+0000 padding in the words' original text the distance is {}", got));
            }
        }
        let d21 = with_dl!(|d: &DamerauLevenshtein| d.distance(&t2.view(0), &t1.view(0)));
        let fresh = DamerauLevenshtein::new().distance(&t1.view(0), &t2.view(0));
        cx.eval();
        let l = oracle::lev(c1, c2) as f64;
        let u = oracle::dl_unrestricted(c1, c2) as f64;
        let mut errs: Vec<String> = vec![];
        if (d12 == 0.0) != (c1 == c2) {
            errs.push("zero-iff-equal".into());
        }
        if d12 != d21 {
            errs.push("symmetry".into());
        }
        if (d12 * 2.0).fract() != 0.0 || !(d12 >= 0.0) {
            errs.push("multiple-of-0.5".into());
        }
        if d12 > l {
            errs.push("exceeds-levenshtein".into());
        }
        if d12 < u / 2.0 {
            errs.push("below-half-unrestricted-DL".into());
        }
        if d12 != fresh {
            errs.push("depends-on-history".into());
        }
        if let Some(e) = reclass_err {
            errs.push(format!("depends-on-history({})", e));
        }
        if let Some(e) = shared_err {
            errs.push(format!("depends-on-where-the-words-are-stored({})", e));
        }
        let a1 = word_text(c1, &vec![CharClass::Any; c1.len()]);
        let a2 = word_text(c2, &vec![CharClass::Any; c2.len()]);
        let dn = DL_ANY.with(|d| d.distance(&a1.view(0), &a2.view(0)));
        if d12 > dn {
            errs.push("discount-raised-distance".into());
        }
        if d12 < dn {
            cx.count("pairs where a discount lowered the distance");
        }
        if d12 < l {
            cx.count("pairs below plain Levenshtein");
        }
        if !deep && cells.is_empty() && c1.len().max(c2.len()) > 20 && cx.rng.chance(1, 4) {
            // long words (beyond the initial capacity, after growth): a sample of prefix cells
            let d_again = with_dl!(|d: &DamerauLevenshtein| d.distance(&t1.view(0), &t2.view(0)));
            if d_again != d12 {
                errs.push("repeat-differs".into());
            }
            for _ in 0..48 {
                let i = cx.rng.below(c1.len() + 1);
                let j = cx.rng.below(c2.len() + 1);
                let cell = with_dl!(|d: &DamerauLevenshtein| d.dists.borrow().get(i + 1, j + 1));
                let p1 = word_text(&c1[..i], &k1[..i]);
                let p2 = word_text(&c2[..j], &k2[..j]);
                let dp = DamerauLevenshtein::new().distance(&p1.view(0), &p2.view(0));
                cx.eval();
                if dp != cell {
                    errs.push(format!("prefix-cell({},{}): matrix {} vs own {}", i, j, cell, dp));
                    break;
                }
            }
            cx.count("long pairs with sampled prefix cells");
        }
        if deep {
            'cells: for i in 0..=c1.len() {
                for j in 0..=c2.len() {
                    let p1 = word_text(&c1[..i], &k1[..i]);
                    let p2 = word_text(&c2[..j], &k2[..j]);
                    let dp = DamerauLevenshtein::new().distance(&p1.view(0), &p2.view(0));
                    cx.eval();
                    if dp != cells[i][j] {
                        errs.push(format!("prefix-cell({},{}): matrix {} vs own {}", i, j, cells[i][j], dp));
                        break 'cells;
                    }
                }
            }
            cx.count_n("prefix cells compared", ((c1.len() + 1) * (c2.len() + 1)) as u64);
        }
        if c1 != c2 && !c1.is_empty() && !c2.is_empty() {
            cx.key(hparts(&[&s(c1), &s(c2)]));
        }
        if !errs.is_empty() {
            let first = errs[0].split('(').next().unwrap_or("").to_string();
            cx.fail_sig(
                "distance-law",
                format!("distance-law:{}", first),
                json!({"word1": s(c1), "word2": s(c2), "distance": d12, "reverse": d21, "fresh_instance": fresh, "levenshtein": l, "unrestricted_dl": u, "all_any_classes": dn, "broken": errs}),
            );
        } else if cx.want_sample() && d12 > 0.0 && d12 < l && cx.rng.chance(1, 200) {
            cx.sample(|| json!({"word1": s(c1), "word2": s(c2), "distance": d12, "levenshtein": l, "unrestricted_dl": u}));
        }
    }

    pub fn check_jaccard(cx: &mut Cx, s1: &[char], s2: &[char]) {
        cx.ctx(format!("C17 {:?} {:?}", s(s1), s(s2)));
        let got = JC.with(|j| j.similarity(s1, s2));
        let back = JC.with(|j| j.similarity(s2, s1));
        let fresh = Jaccard::<char>::new().similarity(s1, s2);
        let dist = JC.with(|j| j.rel_dist(s1, s2));
        let exp = oracle::set_jaccard(s1, s2);
        cx.eval();
        let mut errs: Vec<&str> = vec![];
        if got != exp {
            errs.push("not-the-set-similarity");
        }
        if back != got {
            errs.push("asymmetric");
        }
        if fresh != got {
            errs.push("depends-on-history");
        }
        if !(got >= 0.0 && got <= 1.0) {
            errs.push("outside-[0,1]");
        }
        if dist != 1.0 - exp {
            errs.push("rel_dist-not-1-minus-similarity");
        }
        // the same first argument against a second argument of the same length that differs only beyond its 20th element,
        // right afterwards (state remembered about "the second argument" must be about all of it)
        if s2.len() > 21 {
            let mut s2b = s2.to_vec();
            let at = 20 + (s2.len() - 21) / 2;
            s2b[at] = if s2b[at] == 'q' { 'z' } else { 'q' };
            let last = s2b.len() - 1;
            s2b[last] = if s2b[last] == 'j' { 'k' } else { 'j' };
            let got = JC.with(|j| j.similarity(s1, &s2b));
            let exp = oracle::set_jaccard(s1, &s2b);
            cx.eval();
            cx.count("calls whose second argument differs from the previous one only beyond its 20th element");
            if got != exp {
                cx.fail_sig("jaccard", "jaccard:depends-on-history".into(), json!({"seq1": s(s1), "seq2": s(&s2b), "previous_seq2": s(s2), "similarity": got, "expected": exp}));
                return;
            }
        }
        // the second argument's buffer overwritten in place (same address, same length, one element changed) and asked again
        if !s2.is_empty() {
            let mut buf = s2.to_vec();
            let _ = JC.with(|j| j.similarity(s1, &buf));
            let at = buf.len() / 2;
            buf[at] = if buf[at] == 'q' { 'z' } else { 'q' };
            let got = JC.with(|j| j.similarity(s1, &buf));
            let exp = oracle::set_jaccard(s1, &buf);
            cx.eval();
            cx.count("calls on a buffer overwritten in place since the call before");
            if got != exp {
                cx.fail_sig("jaccard", "jaccard:depends-on-history".into(), json!({"seq1": s(s1), "seq2": s(&buf), "previous_seq2_at_the_same_address": s(s2), "similarity": got, "expected": exp}));
                return;
            }
        }
        // the two arguments may be parts of one buffer: a sequence against its own prefix / suffix / itself
        if !s1.is_empty() {
            let k = (s1.len() / 2).max(1);
            for (a, b, what) in [(&s1[..k], s1, "its own prefix (same buffer)"), (s1, &s1[..k], "its own prefix (same buffer), reversed"), (&s1[k - 1..], s1, "its own suffix (same buffer)"), (s1, s1, "itself (same buffer)")].iter() {
                let got = JC.with(|j| j.similarity(a, b));
                let exp = oracle::set_jaccard(a, b);
                cx.eval();
                cx.count("calls whose arguments are parts of one buffer");
                if got != exp {
                    cx.fail_sig("jaccard", "jaccard:not-the-set-similarity".into(), json!({"seq1": s(a), "seq2": s(b), "arguments": what, "similarity": got, "expected": exp}));
                    break;
                }
            }
        }
        // ... or two ranges of one buffer that overlap only partly, nest properly, touch, or lie apart
        if s1.len() + s2.len() >= 3 {
            let buf: Vec<char> = s1.iter().chain(s2.iter()).copied().collect();
            let n = buf.len();
            for round in 0..3 {
                let (a, b, c, d) = if round == 0 {
                    // a < c < b < d: the second starts inside the first and runs past its end
                    let a = cx.rng.below(n - 2);
                    let c = cx.rng.range(a + 1, n - 2);
                    let b = cx.rng.range(c + 1, n - 1);
                    let d = cx.rng.range(b + 1, n);
                    (a, b, c, d)
                } else {
                    let a = cx.rng.below(n + 1);
                    let b = cx.rng.range(a, n);
                    let c = cx.rng.below(n + 1);
                    let d = cx.rng.range(c, n);
                    (a, b, c, d)
                };
                let (x, y) = (&buf[a..b], &buf[c..d]);
                let (x, y) = if cx.rng.chance(1, 2) { (x, y) } else { (y, x) };
                let got = JC.with(|j| j.similarity(x, y));
                let exp = oracle::set_jaccard(x, y);
                cx.eval();
                cx.count("calls whose arguments are two ranges of one buffer");
                if a < c && c < b && b < d {
                    cx.count("calls whose arguments are ranges of one buffer that overlap only partly");
                }
                if got != exp {
                    cx.fail_sig("jaccard", "jaccard:not-the-set-similarity".into(), json!({"buffer": s(&buf), "range1": [a, b], "range2": [c, d], "seq1": s(x), "seq2": s(y), "arguments": "two ranges of one buffer", "similarity": got, "expected": exp}));
                    break;
                }
            }
        }
        if !s1.is_empty() && !s2.is_empty() {
            cx.key(hparts(&[&s(s1), &s(s2)]));
        }
        if exp > 0.0 && exp < 1.0 {
            cx.count("pairs with partial overlap");
        }
        if s1.len() > 20 || s2.len() > 20 {
            cx.count("pairs beyond the initial capacity of 20");
        }
        if !errs.is_empty() {
            cx.fail_sig("jaccard", format!("jaccard:{}", errs[0]), json!({"seq1": s(s1), "seq2": s(s2), "similarity": got, "reverse": back, "fresh_instance": fresh, "expected": exp, "broken": errs}));
        } else if cx.want_sample() && exp > 0.0 && exp < 1.0 && cx.rng.chance(1, 300) {
            cx.sample(|| json!({"seq1": s(s1), "seq2": s(s2), "similarity": got}));
        }
    }

    /// C19: direct calls with lengths around every growth step, alternating long and short.
    pub fn unchecked_direct(cx: &mut Cx) {
        let alpha: Vec<char> = if cx.tier != Tier::Miri && cx.rng.chance(1, 6) { "abcdefghijklmnopqrstuvwxyzäöüßё0123456789".chars().collect() } else { "abcdeixy1ж".chars().collect() };
        let mut lens: Vec<usize> = vec![];
        if cx.tier == Tier::Miri {
            // under the interpreter a 50-letter distance costs ~10 s: one pass over the growth steps
            lens = match cx.idx % 3 {
                0 => vec![3, 21, 2, 33, 1],
                1 => vec![0, 20, 22, 5, 51, 4],
                _ => vec![34, 1, 21, 0, 33],
            };
        }
        match if cx.tier == Tier::Miri { 99 } else { cx.rng.below(16) % 4 } {
            99 => {}
            3 => {
                // rarely: words far beyond 75 letters (growth steps 79 -> 119 -> 179 -> 269 -> 404),
                // and pairs of two long words one or two letters apart
                if cx.rng.chance(1, 4) {
                    for _ in 0..4 {
                        lens.push(cx.rng.range(76, 420));
                        lens.push(cx.rng.below(30));
                    }
                    cx.count("direct call sequences with words of 76-420 letters");
                } else if cx.rng.chance(1, 2) {
                    for _ in 0..6 {
                        let a = cx.rng.range(15, 80);
                        lens.push(a);
                        lens.push(a + cx.rng.below(3));
                        lens.push(a.saturating_sub(cx.rng.below(3)));
                    }
                } else {
                    // arithmetic relations between the two lengths: (a, 2a+1), (a, 2a), products around powers of two
                    for _ in 0..6 {
                        let a = cx.rng.range(1, 64);
                        lens.push(a);
                        lens.push(match cx.rng.below(4) {
                            0 => 2 * a + 1,
                            1 => 2 * a,
                            2 => (1usize << cx.rng.range(6, 12)) / a.max(1),
                            _ => cx.rng.below(130),
                        });
                    }
                    cx.count("direct call sequences with arithmetic length relations");
                }
            }
            0 => {
                // ascending past each growth step
                let start = cx.rng.below(6);
                let step = cx.rng.range(1, 7);
                let mut n = start;
                while n <= 75 && lens.len() < 24 {
                    lens.push(n);
                    n += step;
                }
            }
            1 => {
                for k in 0..12 {
                    lens.push(if k % 2 == 0 { cx.rng.range(18, 72) } else { cx.rng.below(6) });
                }
            }
            _ => {
                for _ in 0..12 {
                    lens.push(*cx.rng.pick(&[0, 1, 2, 19, 20, 21, 22, 30, 31, 32, 33, 46, 47, 48, 49, 50, 70]));
                }
            }
        }
        if cx.tier != Tier::Miri && cx.rng.chance(1, 300) {
            // Jaccard over sets with more than 255 / 65 535 distinct elements
            let n1 = *cx.rng.pick(&[256usize, 300, 1000, 65_536, 70_000]);
            let n2 = *cx.rng.pick(&[3usize, 255, 257, 66_000]);
            let s1: Vec<char> = (0..n1 as u32).filter_map(|k| std::char::from_u32(0x4E00 + (k * 7) % 80_000)).collect();
            let s2: Vec<char> = (0..n2 as u32).filter_map(|k| std::char::from_u32(0x4E00 + (k * 11) % 80_000)).collect();
            cx.ctx(format!("C19 jaccard on {} and {} elements", s1.len(), s2.len()));
            let j = JC.with(|j| j.similarity(&s1, &s2));
            let small = JC.with(|j| j.similarity(&s2[..3.min(s2.len())], &s1[..2]));
            cx.eval();
            cx.count("jaccard calls on sets of 256-70000 distinct elements");
            if !(j >= 0.0 && j <= 1.0 && small >= 0.0 && small <= 1.0) {
                cx.fail("nonsense-value-from-unchecked-path", json!({"set_sizes": [s1.len(), s2.len()], "similarity": j}));
            }
        }
        let fresh_dl = cx.rng.chance(1, 4);
        let dl_local = DamerauLevenshtein::new();
        let jc_local: Jaccard<char> = Jaccard::new();
        for w in lens.windows(2) {
            let k = cx.rng.range(1, alpha.len());
            let c1: Vec<char> = (0..w[0]).map(|_| alpha[cx.rng.below(k)]).collect();
            let c2: Vec<char> = (0..w[1]).map(|_| alpha[cx.rng.below(k)]).collect();
            let (t1, t2) = (classed(&c1), classed(&c2));
            cx.ctx(format!("C19 distance lengths {} {}: {:?} {:?}", w[0], w[1], s(&c1), s(&c2)));
            let d = if fresh_dl { dl_local.distance(&t1.view(0), &t2.view(0)) } else { DL.with(|d| d.distance(&t1.view(0), &t2.view(0))) };
            let j = if fresh_dl { jc_local.similarity(&c1, &c2) } else { JC.with(|j| j.similarity(&c1, &c2)) };
            if !c1.is_empty() && !c2.is_empty() && cx.rng.chance(1, 3) {
                // arguments that share their buffers: two words of one text, a word against itself, a word against
                // the run-together view that starts at the same character; a slice against its own prefix
                let k1: Vec<CharClass> = c1.iter().map(|c| class_of(*c)).collect();
                let k2: Vec<CharClass> = c2.iter().map(|c| class_of(*c)).collect();
                let both = two_word_text(&c1, &k1, &c2, &k2);
                let joined = both.view(0).join(&both.view(1));
                let run = |a: &lucid_suggest_core::tokenization::WordView, b: &lucid_suggest_core::tokenization::WordView| if fresh_dl { dl_local.distance(a, b) } else { DL.with(|d| d.distance(a, b)) };
                let _ = run(&both.view(0), &both.view(1));
                let _ = run(&both.view(0), &joined);
                let _ = run(&joined, &both.view(0));
                let _ = run(&joined, &both.view(1));
                let _ = run(&both.view(1), &both.view(1));
                // a view widened by hand after it was built (its public `slice` now spans both words, as `join` makes it):
                // sizes must follow the view as it is when the call is made
                let mut wide = both.view(0);
                wide.slice.1 = both.view(1).slice.1;
                let _ = run(&wide, &both.view(1));
                let _ = run(&both.view(1), &wide);
                let mut narrow = both.view(1);
                narrow.slice.0 = narrow.slice.1 - 1;
                let _ = run(&narrow, &wide);
                // ... and on an instance that has never been sized for anything longer
                let untouched = DamerauLevenshtein::new();
                let _ = untouched.distance(&wide, &narrow);
                let untouched = DamerauLevenshtein::new();
                let _ = untouched.distance(&narrow, &wide);
                cx.count("direct calls on a view whose slice was changed after it was built");
                let kk = (c1.len() / 2).max(1);
                let _ = JC.with(|j| j.similarity(&c1[..kk], &c1));
                let _ = JC.with(|j| j.similarity(&c1, &c1[kk - 1..]));
                cx.count("direct calls whose arguments share their buffers");
            }
            cx.eval();
            cx.count("direct distance/similarity calls");
            cx.count_max("longest word in a direct call max ", w[0].max(w[1]) as u64);
            if w[0].max(w[1]) > 20 {
                cx.count("direct calls beyond capacity 20");
                cx.key(hparts(&[&s(&c1), &s(&c2)]));
            }
            if cx.want_sample() && w[0].max(w[1]) > 20 {
                cx.sample(|| json!({"stream": "direct", "word1": s(&c1), "word2": s(&c2), "lengths": [w[0], w[1]], "fresh_instance": fresh_dl, "distance": d, "similarity": j}));
            }
            if !(d >= 0.0) || !(j >= 0.0 && j <= 1.0) {
                cx.fail("nonsense-value-from-unchecked-path", json!({"word1": s(&c1), "word2": s(&c2), "distance": d, "similarity": j}));
            }
        }
    }
}

impl Prims {
    fn index_case(&self, cx: &mut Cx, lang: &'static str) {
        let words = [
            "metal", "mettle", "mailbox", "me", "m", "yellow", "shirt", "t", "wi", "fi", "the", "für", "ёлка", "a", "aa", "aaa", "aaaa", "abab", "baba", "", "ab",
            "straße", "œuvre", "t-shirt", "aab", "b", "𝐀𝐁𝐂", "😀😀", "𝐀b", "a\u{0}b",
            // letters above U+FFFF whose low 16 bits are a BMP letter, next to the words they would collide with if a
            // gram were packed into 16 bits per letter ([x,a,U+20061] ~ [x,c,a]; [x,U+20061,r] ~ [z,a,r])
            // title-case letters (neither upper nor lower case) and their lower-case forms: different letters, different grams
            "ǅemal", "ǆemal", "ᾈδης", "ᾀδης",
            // plane-16 letters (bit 20 set) next to the words they collide with if a gram were packed into 20 bits per letter
            "ab\u{100000}d", "ac", "ac\u{100000}", "\u{10fffd}b", "b",
            "xa\u{20061}", "xca", "x\u{20061}r", "zar", "\u{20061}bc", "abc", "\u{20062}\u{20061}", "ba",
        ];
        let n = match cx.rng.below(40) {
            0 => *cx.rng.pick(&[1023, 1024, 1025, 4096, 5000, 8200, 9000, 66000]),
            1..=10 => cx.rng.below(8),
            11..=20 => cx.rng.below(60),
            _ => cx.rng.below(400),
        };
        if n > 1000 {
            cx.count("stores of 1023-5000 records");
            if n > 8000 {
                cx.count("stores of more than 8000 records");
            }
        }
        let k = cx.rng.range(2, words.len());
        // one store in ten draws from the last eight words only (the non-BMP letters and their BMP look-alikes)
        let lo = if cx.rng.chance(1, 10) { words.len() - 17 } else { 0 };
        let k = if lo > 0 { words.len() } else { k };
        if lo > 0 {
            cx.count("stores of words with letters above U+FFFF and their 16-bit look-alikes");
        }
        // one store in eight holds random short words and, for each, one or two words that would share a trigram key
        // with it under a narrower packing than a character needs (8, 16 or 20 bits; truncated, or spilling into the
        // neighbouring letter's field)
        let mut owned: Vec<String> = vec![];
        if lo == 0 && cx.rng.chance(1, 8) {
            let alpha: Vec<char> = if cx.rng.chance(1, 2) { "abcd".chars().collect() } else { gen::lower_alphabet(lang) };
            for _ in 0..cx.rng.range(2, 5) {
                let w: Vec<char> = gen::rand_word(&mut cx.rng, &alpha, 2, 5).chars().collect();
                for _ in 0..cx.rng.range(1, 2) {
                    let l = gen::lookalike_of_word(&mut cx.rng, &w);
                    if l != w {
                        owned.push(l.iter().collect());
                    }
                }
                owned.push(w.iter().collect());
            }
            cx.count("stores of random words and their look-alikes under 8-, 16- or 20-bit packing");
        }
        let dynamic: Vec<&str> = owned.iter().map(|s| s.as_str()).collect();
        let (words, k): (&[&str], usize) = if dynamic.is_empty() { (&words[lo..], k - lo) } else { (&dynamic[..], dynamic.len()) };
        let recs: Vec<Rec> = (0..n)
            .map(|i| {
                let m = cx.rng.below(4);
                let t = (0..m).map(|_| words[cx.rng.below(k)]).collect::<Vec<_>>().join(*cx.rng.pick(&[" ", " ", "-", ""]));
                (i, t, i)
            })
            .collect();
        let st = St::build_sentinel(lang, &recs, 10);
        let rgrams: Vec<BTreeSet<oracle::Gram>> = recs.iter().map(|r| oracle::grams_of(&st.tok_record(&r.1))).collect();
        for _ in 0..6 {
            let q = match cx.rng.below(4) {
                0 => words[cx.rng.below(k)].to_string(),
                1 => format!("{} {}", words[cx.rng.below(k)], cx.rng.pick(&words)),
                2 => gen::any_word(&mut cx.rng, lang),
                _ => cx.rng.pick(&words).chars().take(cx.rng.range(1, 2)).collect(),
            };
            let q = if cx.rng.chance(1, 25) { cx.rng.pick(&["", " ", "-", "...", "\u{301}"]).to_string() } else { q };
            let size = if cx.rng.chance(1, 5) { *cx.rng.pick(&[6, 7, 8, 10, 13, 26, 50, 100, 1000, 6554]) } else { cx.rng.below(6) };
            let q = if cx.rng.chance(1, 12) {
                // a query of 21-30 words (beyond the 20-slot buffers), many distinct grams
                (0..cx.rng.range(21, 30)).map(|_| if cx.rng.chance(1, 2) { cx.rng.pick(&words).to_string() } else { gen::any_word(&mut cx.rng, lang) }).collect::<Vec<_>>().join(" ")
            } else {
                q
            };
            self.index_check(cx, lang, &st, &recs.len(), &rgrams, &q, size, &json!(recs));
            // the same query again with the sizes that put the number of sharing records exactly at / one past the cap
            let tq = st.tok_query(&q);
            if !tq.words.is_empty() {
                let qg = oracle::grams_of(&tq);
                let sharing = rgrams.iter().filter(|g| !g.is_disjoint(&qg)).count();
                if sharing >= 10 {
                    for sz in [sharing / 10, (sharing - 1) / 10].iter() {
                        self.index_check(cx, lang, &st, &recs.len(), &rgrams, &q, *sz, &json!(recs));
                    }
                }
            }
        }
    }

    /// One index answering more than 2^16 (sometimes 2^17) calls: a few records are touched by the first
    /// calls only, then tens of thousands of calls touch other records, then the first queries come back.
    /// Per-index state that only wraps or ages after many calls (epochs, stamps, narrow counters) shows at
    /// the calls around each power of two; all of those and every 13th other call are judged.
    fn index_session_case(&self, cx: &mut Cx, lang: &'static str) {
        let rare = ["detector", "ёлка", "obcdefgh", "zzz"];
        let freq = ["metal", "mailbox", "yellow", "shirt", "omega", "me", "wi"];
        let n = cx.rng.range(2, 30);
        let recs: Vec<Rec> = (0..n)
            .map(|i| {
                let t = match cx.rng.below(4) {
                    0 => cx.rng.pick(&rare).to_string(),
                    1 => format!("{} {}", cx.rng.pick(&rare), cx.rng.pick(&freq)),
                    2 => cx.rng.pick(&freq).to_string(),
                    _ => format!("{} {}", cx.rng.pick(&freq), cx.rng.pick(&freq)),
                };
                (i, t, i)
            })
            .collect();
        let st = St::build_sentinel(lang, &recs, 10);
        let rgrams: Vec<BTreeSet<oracle::Gram>> = recs.iter().map(|r| oracle::grams_of(&st.tok_record(&r.1))).collect();
        let desc = json!(recs);
        let lead = cx.rng.range(1, 6);
        let two = cx.idx % 4 == 1;
        let total: usize = if two { 131_100 + lead } else { 65_560 + lead };
        let size_for = |k: usize| [1usize, 5, 1, 2, 0, 1][k % 6];
        let mut judged = 0u64;
        for k in 0..total {
            let nth = k + 1;
            let near_power = (8..=17).any(|b| {
                let p = 1usize << b;
                nth + 3 >= p && nth <= p + lead + 8
            });
            let in_lead = k < lead || k + lead + 2 >= total;
            let q: String = if in_lead {
                let w = rare[(k + cx.idx as usize) % rare.len()];
                if k % 2 == 0 { w.to_string() } else { w.chars().skip(1).collect() }
            } else {
                let w = freq[(k * 5 + k / 31) % freq.len()];
                if k % 3 == 0 { w.chars().take(2).collect() } else { w.to_string() }
            };
            let size = if in_lead { [5usize, 1][k % 2] } else { size_for(k) };
            if in_lead || near_power || nth % 13 == 0 {
                let before = cx.viols.len();
                self.index_check(cx, lang, &st, &recs.len(), &rgrams, &q, size, &desc);
                judged += 1;
                if cx.viols.len() != before {
                    if let Some(v) = cx.viols.last_mut() {
                        v.detail["history"] = json!(format!("call #{} on this index: {} leading calls with queries from {:?}, then calls with queries from {:?}, the leading queries again at the end", nth, lead, rare, freq));
                    }
                    return;
                }
            } else {
                let tq = st.tok_query(&q);
                let _ = st.store.index.borrow_mut().prepare(&tq.to_ref(), size);
            }
        }
        cx.count_n("session calls on one index", total as u64);
        cx.count_max("most calls on one index max ", total as u64);
        cx.count_n("session calls judged", judged);
        if two {
            cx.count("sessions past 2^17 calls");
        }
    }

    /// Very large indexes in which a word occurs at a few chosen positions only: the distances between two
    /// occurrences of a gram (and from position 0 to its first occurrence) sit at and next to 255, 256, 65 535,
    /// 65 536 and their doubles - the values at which narrow or delta-encoded posting lists change their layout.
    fn index_sparse_case(&self, cx: &mut Cx, lang: &'static str) {
        let gaps = [255usize, 256, 257, 65_534, 65_535, 65_536, 65_537, 131_070, 131_071, 131_072];
        let first = *cx.rng.pick(&[0usize, 1, 255, 256, 65_535, 65_536, 300]);
        let g1 = *cx.rng.pick(&gaps);
        let g2 = *cx.rng.pick(&gaps[..8]);
        let at: Vec<usize> = vec![first, first + g1, first + g1 + g2];
        let n = at[2] + cx.rng.range(1, 300);
        let rare = *cx.rng.pick(&["zebra", "yak", "quartz"]);
        let mut st = St::sentinel(lang, 10);
        for i in 0..n {
            let t = if at.contains(&i) { rare.to_string() } else { format!("apple {}", i % 7) };
            st.add(&(i, t, 1));
        }
        cx.count("sparse indexes of 65 000 - 330 000 records");
        for (q, size) in [(rare.to_string(), 1usize), (rare.chars().take(2).collect::<String>(), 5), (format!("{} x", rare), 3)].iter() {
            let tq = st.tok_query(q);
            cx.ctx(format!("C18 sparse lang={} records={} rare word {:?} at {:?} q={:?} size={}", lang, n, rare, at, q, size));
            let got = st.store.index.borrow_mut().prepare(&tq.to_ref(), *size);
            cx.eval();
            cx.count("prepare calls");
            // the rare word's positions share the most grams with any of these queries (and nothing else shares its grams),
            // so they must be listed first
            let mut errs: Vec<String> = vec![];
            if got.len() < at.len().min(10 * size) {
                errs.push(format!("{} positions listed, the {} positions of the rare word share its grams", got.len(), at.len()));
            } else {
                let head: BTreeSet<usize> = got.iter().take(at.len()).cloned().collect();
                let want: BTreeSet<usize> = at.iter().cloned().collect();
                if at.len() <= 10 * size && head != want {
                    errs.push(format!("the first {} listed positions are {:?}, the rare word is at {:?}", at.len(), head, want));
                }
            }
            if got.len() != at.len().min(10 * size) {
                errs.push(format!("{} positions listed for a word that occurs {} times", got.len(), at.len()));
            }
            cx.key(hparts(&[lang, &format!("{:?}", at), q]));
            if !errs.is_empty() {
                cx.fail("index-candidates", json!({"lang": lang, "store": format!("{} records 'apple <i mod 7>' except {:?} at positions {:?}", n, rare, at), "query": q, "size": size, "got_head": got.iter().take(12).collect::<Vec<_>>(), "errors": errs}));
                return;
            }
        }
    }

    /// Long texts: queries with several hundred distinct grams against records sharing most of them.
    fn index_long_case(&self, cx: &mut Cx, lang: &'static str) {
        if cx.tier != Tier::Miri && cx.idx % 40 == 7 {
            // one record and one query with more than 65 536 distinct grams in common (290-330 words of 230 different
            // caseless letters each), next to two ordinary records
            let letters: Vec<char> = (0..230u32).filter_map(|k| std::char::from_u32(0x4E00 + k * 7)).collect();
            let nwords = cx.rng.range(290, 330);
            let mut words: Vec<String> = vec![];
            for _ in 0..nwords {
                let mut w = letters.clone();
                cx.rng.shuffle(&mut w);
                words.push(s(&w));
            }
            let giant = words.join(" ");
            let mut recs: Vec<Rec> = vec![(0, "metal mailbox".to_string(), 1), (1, giant.clone(), 2), (2, words[0].clone(), 3)];
            // every other time twelve more records hold about half of the giant's words each: with size 1 more records share
            // a gram with the query than the cap admits, and the one sharing more than 2^16 grams must head the list
            let crowd = cx.idx % 80 == 7;
            if crowd {
                for k in 0..12 {
                    let half: Vec<&str> = words.iter().enumerate().filter(|(i, _)| (i + k) % 2 == 0 || i % 12 == k).map(|(_, w)| w.as_str()).collect();
                    recs.push((3 + k, half.join(" "), 4));
                }
                cx.count("capped calls in which one record shares more than 65 536 grams with the query");
            }
            let st = St::build_sentinel(lang, &recs, 10);
            let rgrams: Vec<BTreeSet<oracle::Gram>> = recs.iter().map(|r| oracle::grams_of(&st.tok_record(&r.1))).collect();
            cx.count("queries with more than 65 536 distinct grams");
            let desc = json!(format!("{} records; record 1 has {} words of 230 different letters ({} distinct grams){}", recs.len(), nwords, rgrams[1].len(), if crowd { "; records 3-14 hold about half of its words each" } else { "" }));
            self.index_check(cx, lang, &st, &recs.len(), &rgrams, &giant, 1, &desc);
            self.index_check(cx, lang, &st, &recs.len(), &rgrams, &words[..nwords / 2].join(" "), 1, &desc);
            return;
        }
        let alpha = gen::lower_alphabet(lang);
        let pool: Vec<String> = (0..cx.rng.range(150, 400)).map(|_| gen::rand_word(&mut cx.rng, &alpha, 3, 7)).collect();
        let n = cx.rng.range(3, 14);
        let recs: Vec<Rec> = (0..n)
            .map(|i| {
                let m = cx.rng.range(60, 220);
                ((i), (0..m).map(|_| cx.rng.pick(&pool).as_str()).collect::<Vec<_>>().join(" "), i)
            })
            .collect();
        let st = St::build_sentinel(lang, &recs, 10);
        let rgrams: Vec<BTreeSet<oracle::Gram>> = recs.iter().map(|r| oracle::grams_of(&st.tok_record(&r.1))).collect();
        for _ in 0..4 {
            let m = cx.rng.range(60, 180);
            let q = (0..m).map(|_| cx.rng.pick(&pool).as_str()).collect::<Vec<_>>().join(" ");
            let size = cx.rng.below(3);
            if oracle::grams_of(&st.tok_query(&q)).len() > 255 {
                cx.count("queries with more than 255 distinct grams");
            }
            self.index_check(cx, lang, &st, &recs.len(), &rgrams, &q, size, &json!(format!("{} records of 60-220 words from a pool of {} random words", n, pool.len())));
        }
    }

    fn index_check(&self, cx: &mut Cx, lang: &str, st: &St, n: &usize, rgrams: &[BTreeSet<oracle::Gram>], q: &str, size: usize, store_desc: &serde_json::Value) {
        let tq = st.tok_query(q);
        if tq.words.is_empty() {
            // a query without words has no gram: nothing can share one with it
            cx.ctx(format!("C18 lang={} store={} q={:?} (no words) size={}", lang, store_desc, q, size));
            let got = st.store.index.borrow_mut().prepare(&tq.to_ref(), size);
            cx.eval();
            cx.count("calls with a query without words");
            if !got.is_empty() {
                cx.fail("index-candidates", json!({"lang": lang, "store": store_desc, "query": q, "size": size, "got": got, "errors": ["the query has no word, hence no gram, but positions are listed"]}));
            }
            return;
        }
        let qg = oracle::grams_of(&tq);
        cx.ctx(format!("C18 lang={} store={} q={:?} size={}", lang, store_desc, q, size));
        let got = st.with_query(tq.to_ref().to_own(), |r| st.store.index.borrow_mut().prepare(r, size));
        cx.eval();
        cx.count("prepare calls");
        let shared: Vec<usize> = rgrams.iter().map(|g| g.intersection(&qg).count()).collect();
        let sharing = shared.iter().filter(|&&c| c > 0).count();
        let mut errs: Vec<String> = vec![];
        let uniq: BTreeSet<usize> = got.iter().cloned().collect();
        if uniq.len() != got.len() {
            errs.push("duplicate position".into());
        }
        for &ix in &got {
            if ix >= *n {
                errs.push(format!("position {} of a non-existing record", ix));
            } else if shared[ix] == 0 {
                errs.push(format!("position {} shares no gram", ix));
            }
        }
        if errs.is_empty() {
            if sharing <= 10 * size {
                if got.len() != sharing {
                    errs.push(format!("{} records share a gram (<= 10*size) but {} are listed", sharing, got.len()));
                }
            } else {
                cx.count("capped calls");
                if got.len() != 10 * size {
                    errs.push(format!("cap is {} but {} are listed", 10 * size, got.len()));
                }
                for w in got.windows(2) {
                    if shared[w[0]] < shared[w[1]] {
                        errs.push("counts not non-increasing".into());
                        break;
                    }
                }
                let minl = got.iter().map(|&i| shared[i]).min().unwrap_or(usize::MAX);
                let mut tie_at_cut = false;
                for i in 0..*n {
                    if !uniq.contains(&i) {
                        if shared[i] > minl {
                            errs.push(format!("omitted position {} shares {} grams, more than a listed one ({})", i, shared[i], minl));
                            break;
                        }
                        if shared[i] == minl {
                            tie_at_cut = true;
                        }
                    }
                }
                if tie_at_cut {
                    cx.count("calls with ties at the cut");
                }
            }
        }
        // the same text tokenised by ANOTHER language, same size, right afterwards on the same index: the query that
        // counts is the one handed over (its normalised words), not the text it was typed as
        if errs.is_empty() && cx.rng.chance(1, 6) {
            let other = LANGS[(hstr(q) as usize + 1) % LANGS.len()];
            let tq2 = with_lang(other, |l| tokenize_query(q, l));
            if !tq2.words.is_empty() && tq2.chars != tq.chars {
                let qg2 = oracle::grams_of(&tq2);
                let got2 = st.store.index.borrow_mut().prepare(&tq2.to_ref(), size);
                cx.eval();
                cx.count("calls with the same text tokenised by another language");
                let shared2: Vec<usize> = rgrams.iter().map(|g| g.intersection(&qg2).count()).collect();
                let sharing2 = shared2.iter().filter(|&&c| c > 0).count();
                let mut e2: Vec<String> = vec![];
                for &ix in &got2 {
                    if ix >= *n || shared2[ix] == 0 {
                        e2.push(format!("position {} shares no gram with the query as tokenised by {}", ix, other));
                    }
                }
                if sharing2 <= 10 * size && got2.len() != sharing2 {
                    e2.push(format!("{} records share a gram with the query as tokenised by {} (<= 10*size) but {} are listed", sharing2, other, got2.len()));
                }
                if !e2.is_empty() {
                    cx.fail("index-candidates", json!({"lang": lang, "store": store_desc, "query": q, "query_tokenised_by": other, "size": size, "got": got2, "shared_gram_counts": shared2, "errors": e2,
                        "history": "the same text tokenised by the store's language was prepared with the same size immediately before"}));
                    return;
                }
            }
        }
        if sharing > 0 {
            cx.key(hparts(&[lang, &store_desc.to_string(), q, &size.to_string()]));
        }
        if sharing == 10 * size + 1 || sharing == 10 * size {
            cx.count("calls at the boundary between 'all listed' and 'capped'");
        }
        if size == 0 {
            cx.count("size 0");
        }
        if !errs.is_empty() {
            cx.fail("index-candidates", json!({"lang": lang, "store": store_desc, "query": q, "size": size, "got": got, "shared_gram_counts": shared, "errors": errs}));
        } else if cx.want_sample() && sharing > 10 * size && size > 0 {
            cx.sample(|| json!({"lang": lang, "records": n, "query": q, "size": size, "listed": got.len(), "sharing": sharing}));
        }
    }

    /// C19 at store level: long words, long queries, many records, scratch reuse across stores and languages.
    /// One store grown record by record past every power of two up to 2^16 (one time in four 2^17, and one time in four after
    /// an earlier life and a `clear()`): whenever it holds 2^m - 1, 2^m, 2^m + 1 or 2^m + 2 records (m >= 7), the record that
    /// has just arrived is searched for at once - the newest position is the one a counter vector sized a step too early
    /// does not cover yet.
    fn unchecked_growth_marks(&self, cx: &mut Cx) {
        let lang = LANGS[((cx.idx / 400) % NL) as usize];
        let top: usize = if (cx.idx / 400) % 4 == 3 { 1 << 17 } else { 1 << 16 };
        let letters: Vec<char> = gen::lower_alphabet(lang).into_iter().filter(|c| c.is_alphabetic()).take(20).collect();
        if letters.len() < 6 {
            return;
        }
        let spell = |mut i: usize| -> String {
            let mut w = vec![letters[0], letters[1]];
            for _ in 0..5 {
                w.push(letters[2 + i % (letters.len() - 2)]);
                i /= letters.len() - 2;
            }
            s(&w)
        };
        let mut st = St::sentinel(lang, *cx.rng.pick(&[1usize, 3, 10]));
        if (cx.idx / 400) % 4 == 1 {
            for i in 0..300 {
                st.add(&(i, format!("{} old", spell(i)), 1));
            }
            let _ = st.search(&spell(7));
            st.store.clear();
            cx.count("stores grown past powers of two after an earlier life and a clear");
        }
        let mut found = 0u64;
        for i in 0..top + 3 {
            let size = i + 1;
            let near = (7..=17).any(|m| {
                let p = 1usize << m;
                size + 1 >= p && size <= p + 2
            });
            let title = if near { format!("{} x", spell(i)) } else { format!("z{} y", i % 5) };
            st.add(&(i, title, i % 3));
            if near {
                let q = spell(i);
                cx.ctx(format!("C19 growth marks lang={}: store of {} records, the newest titled {:?}, searched for at once", lang, size, q));
                let ids = st.search_ids(&q);
                cx.eval();
                cx.count("searches for the record that has just made the store 2^m - 1 .. 2^m + 2 records big");
                if ids.contains(&i) {
                    found += 1;
                }
            }
        }
        cx.count_n("such searches that found the newest record", found);
        cx.count("stores grown record by record past every power of two up to 2^16");
        cx.key(hparts(&[lang, &top.to_string(), "growth-marks"]));
    }

    fn unchecked_store(&self, cx: &mut Cx) {
        if cx.idx % 400 == 13 && cx.tier != Tier::Miri {
            return self.unchecked_growth_marks(cx);
        }
        let corpus = corpus_recs();
        // several stores live on one thread: the store of the previous round stays alive while the next one is
        // built, searched and dropped, and is searched again afterwards (scratch shared between stores and
        // sized or released by a neighbour would show at that search)
        let mut survivor: Option<(St, String, &'static str)> = None;
        for round in 0..3 {
            if let Some((pst, pq, plang)) = &survivor {
                cx.ctx(format!("C19 store: search {:?} on the {}-record {} store of the previous round after its neighbour was dropped", pq, pst.store.records.len(), plang));
                let _ = pst.search(pq);
                cx.eval();
                cx.count("searches on a surviving store after a neighbour store was dropped");
            }
            let lang = *cx.rng.pick(&LANGS);
            let alpha = gen::lower_alphabet(lang);
            let big = cx.tier != Tier::Miri && cx.rng.chance(1, 12);
            let n = if cx.tier == Tier::Miri { cx.rng.range(1, 4) } else if big { *cx.rng.pick(&[127, 128, 129, 255, 256, 257, 600, 1024, 1500]) } else { cx.rng.range(1, 40) };
            if big {
                cx.count("store-level rounds with 127-1500 records");
            }
            let mut recs: Vec<Rec> = vec![];
            for i in 0..n {
                let t = match cx.rng.below(4) {
                    0 => format!("{} {}", gen::rand_word(&mut cx.rng, &alpha, 18, 70), gen::rand_word(&mut cx.rng, &alpha, 1, 3)),
                    1 => gen::hostile(&mut cx.rng, 10),
                    _ => gen::realistic_title(&mut cx.rng, lang, &corpus),
                };
                recs.push((i, t, i));
            }
            let mut st = St::build_sentinel(lang, &recs, gen::rand_limit(&mut cx.rng));
            if cx.tier != Tier::Miri && cx.rng.chance(1, 4) {
                // add / clear / re-add histories: counters, posting lists and record vector must stay in step
                let keep = cx.rng.below(recs.len() + 1);
                st.store.clear();
                recs.truncate(keep);
                if cx.rng.chance(1, 2) {
                    recs.push((recs.len(), String::new(), 0));
                    recs.push((recs.len(), "---".to_string(), 0));
                }
                for r in &recs {
                    st.add(r);
                }
                if recs.is_empty() {
                    recs.push((0, "metal".to_string(), 1));
                    st.add(&recs[0]);
                }
                cx.count("store-level rounds with clear and re-add");
            }
            if cx.tier != Tier::Miri && cx.rng.chance(1, 3) {
                // type-ahead with adds in between: each query extends the previous one by a letter while the
                // store grows (counter buffers sized at one query and used at the next)
                let t = cx.rng.pick(&recs).1.clone();
                let tok = st.tok_record(&t);
                if !tok.words.is_empty() {
                    let w = word_chars(&tok, cx.rng.below(tok.words.len())).to_vec();
                    for k in 1..=w.len().min(12) {
                        let q = s(&w[..k]);
                        cx.ctx(format!("C19 type-ahead lang={} recs={} q={:?}", lang, recs.len(), q));
                        let _ = st.search(&q);
                        cx.eval();
                        if cx.rng.chance(1, 2) {
                            let r: Rec = (recs.len() + 7000, format!("{} {}", gen::any_word(&mut cx.rng, lang), gen::rand_word(&mut cx.rng, &alpha, 2, 6)), 1);
                            st.add(&r);
                            recs.push(r);
                        }
                    }
                    cx.count("type-ahead sequences with adds in between");
                }
            }
            if cx.rng.chance(1, 4) && recs.len() >= 2 {
                // an earlier id added again (same or another title) after younger records
                let again: Rec = (recs[0].0, if cx.rng.chance(1, 2) { recs[0].1.clone() } else { recs[recs.len() - 1].1.clone() }, 2);
                st.add(&again);
                recs.push(again);
                cx.count("store-level rounds with a record id added twice");
            }
            let nq = if cx.tier == Tier::Miri { 3 } else { 8 };
            for k in 0..nq {
                let t = cx.rng.pick(&recs).1.clone();
                let q = if k == 5 && cx.rng.chance(1, 3) {
                    // a query of 65-200 words
                    cx.count("store-level queries of 65-200 words");
                    (0..cx.rng.range(65, 200)).map(|_| gen::any_word(&mut cx.rng, lang)).collect::<Vec<_>>().join(" ")
                } else if k % 2 == 0 {
                    let q = gen::related_query(&mut cx.rng, lang, &st.store.lang, &t);
                    if cx.rng.chance(1, 3) { q.chars().filter(|c| c.is_alphanumeric()).collect() } else { q }
                } else {
                    gen::rand_word(&mut cx.rng, &alpha, 1, 4)
                };
                cx.ctx(format!("C19 store round={} lang={} recs={:?} q={:?}", round, lang, recs, q));
                let hits = st.search(&q);
                cx.eval();
                cx.count("store-level searches");
                if hits.iter().any(|h| h.1.chars().count() > 20) {
                    cx.key(hparts(&[lang, &format!("{:?}", recs), &q]));
                    if cx.want_sample() && q.chars().count() > 20 {
                        cx.sample(|| json!({"stream": "store", "lang": lang, "records": recs.len(), "query": q, "hits": hits.len()}));
                    }
                }
                if let (2, Some((pst, pq, _))) = (k, &survivor) {
                    // interleaved: the older store answers between two searches of the newer one
                    let _ = pst.search(pq);
                    cx.eval();
                }
            }
            // keep this store (dropping the older one now, whichever is bigger), or drop this one and keep the older
            let q_again = recs.last().map(|r| r.1.clone()).unwrap_or_default();
            if survivor.is_none() || cx.rng.chance(1, 2) {
                survivor = Some((st, q_again, lang));
            } else {
                drop(st);
            }
        }
        if let Some((pst, pq, plang)) = survivor {
            cx.ctx(format!("C19 store: final search {:?} on the surviving {}-record {} store", pq, pst.store.records.len(), plang));
            if cx.tier != Tier::Miri && cx.rng.chance(1, 3) {
                // `Store` is `Send`: filled on this thread, searched on a new one (whose scratch state is new)
                match std::thread::spawn(move || {
                    let _ = pst.search(&pq);
                })
                .join()
                {
                    Ok(()) => {}
                    Err(e) => std::panic::resume_unwind(e),
                }
                cx.count("stores filled on one thread and searched on another");
            } else {
                let _ = pst.search(&pq);
            }
            cx.eval();
            cx.count("searches on a surviving store after a neighbour store was dropped");
        }
    }
}

impl Prop for Prims {
    fn id(&self) -> &'static str {
        match self.0 {
            Which::Distance => "C16",
            Which::Jaccard => "C17",
            Which::Index => "C18",
            Which::Unchecked => "C19",
        }
    }
    fn rule(&self) -> &'static str {
        match self.0 {
            Which::Distance => "DamerauLevenshtein::distance driven directly on one long-lived instance: every ordered pair of words up to length 4 over a mixed alphabet (vowel, consonant, digit, unclassified; 4 symbols quick, 6 thorough) - exhaustive - with every prefix cell of the matrix compared against the distance of the prefixes computed on a fresh instance; random words up to 70 letters in alternating long/short order. Laws: zero iff equal, symmetric, multiple of 0.5, <= Levenshtein, >= unrestricted DL / 2, classes only lower it, equals a fresh instance. Distinct by ordered pair; non-trivial = two different non-empty words",
            Which::Jaccard => "Jaccard::similarity driven directly on one long-lived instance: every ordered pair of sequences up to length 4 (quick) / 5 (thorough) over 4 symbols - exhaustive - plus random sequences up to 60 in alternating lengths; compared with |A∩B|/|A∪B| computed on sets (exact f64 equality), symmetric, in [0,1], equal to a fresh instance, rel_dist == 1 - similarity. Distinct by ordered pair; non-trivial = both non-empty",
            Which::Index => "Store.index.prepare(query, size) on stores of 0-400 records from a repetitive vocabulary (duplicates, empty titles, one-letter words), sizes 0-5, all languages, plus the corpus store; shared-gram counts recomputed from the public tokeniser; checks: no duplicates, only existing positions sharing >= 1 gram, all listed when <= 10*size share, else exactly 10*size, counts non-increasing, no omitted record with more shared grams than a listed one. Distinct by (language, store, query, size); non-trivial = at least one record shares a gram",
            Which::Unchecked => "every unchecked access reports (index, dimension) to hook assertions (row < size, column < size, counter < len, cost < len, merge cursors < len) in a build with debug assertions, overflow checks and std's unsafe-precondition checks; workload: direct distance/similarity calls with lengths 0-75 ascending past every growth step and alternating long/short, store-level adds/searches with 18-70 letter words, long joined queries, scratch reuse across stores and languages. Distinct by input; non-trivial = input beyond the initial capacity of 20",
        }
    }
    fn streams(&self) -> Vec<Stream> {
        match self.0 {
            Which::Distance => vec![Stream::new("exhaustive", 341, 1555), Stream::new("random", 24000, 720000).miri(8), Stream::new("session", 16, 96)],
            Which::Jaccard => vec![Stream::new("exhaustive", 341, 1365), Stream::new("random", 32000, 1600000).miri(8)],
            Which::Index => vec![Stream::new("stores", 6400, 320000), Stream::new("corpus", 96, 2880), Stream::new("long", 320, 16000), Stream::new("session", 16, 160), Stream::new("sparse", 16, 160)],
            Which::Unchecked => vec![Stream::new("direct", 24000, 1200000).asan(24000).miri(12), Stream::new("store", 6400, 320000).asan(6400).miri(6)],
        }
    }
    fn floors(&self) -> Vec<(&'static str, u64, u64)> {
        match self.0 {
            Which::Distance => vec![("exhaustive pairs", 100000, 2000000), ("prefix cells compared", 1000000, 20000000), ("pairs where a discount lowered the distance", 10000, 100000), ("random pairs beyond capacity 20", 500, 5000), ("long pairs with sampled prefix cells", 200, 2000), ("random cases with per-position character classes", 2000, 20000), ("re-classed repeat calls", 10000, 100000), ("random cases over an alphabet of 41-110 symbols", 3000, 30000), ("random cases over letters related by case or compatibility mappings", 3000, 30000), ("random cases over letters that agree in their low 8, 16 or 20 bits", 3000, 30000), ("calls on a word buffer overwritten in place since the call before", 20000, 200000), ("pairs holding more than 256 different letters", 200, 2000), ("calls with one word held fixed while the other grows", 20000, 200000), ("session calls on one instance", 1000000, 6000000), ("most calls on one instance max ", 131072, 131072), ("hook matrix growths", 3, 3), ("hook matrix max size", 50, 50)],
            Which::Jaccard => vec![("exhaustive pairs", 100000, 1500000), ("pairs with partial overlap", 20000, 200000), ("pairs beyond the initial capacity of 20", 500, 5000), ("calls whose arguments are ranges of one buffer that overlap only partly", 20000, 200000), ("random cases over elements that agree in their low 8, 16 or 20 bits", 1000, 10000), ("calls on a buffer overwritten in place since the call before", 100000, 1000000), ("random cases over a wide alphabet", 1000, 10000), ("hook jaccard accesses", 100000, 1000000)],
            Which::Index => vec![("prepare calls", 5000, 50000), ("capped calls", 500, 5000), ("calls with ties at the cut", 100, 1000), ("size 0", 300, 3000), ("corpus prepare calls", 200, 2000), ("stores of 1023-5000 records", 50, 500), ("queries with more than 255 distinct grams", 300, 15000), ("calls at the boundary between 'all listed' and 'capped'", 300, 15000), ("session calls on one index", 1000000, 10000000), ("most calls on one index max ", 131000, 131000), ("sessions past 2^17 calls", 2, 20), ("calls with a query without words", 300, 3000), ("sparse indexes of 65 000 - 330 000 records", 16, 160), ("queries with more than 65 536 distinct grams", 2, 50), ("stores of words with letters above U+FFFF and their 16-bit look-alikes", 300, 3000), ("stores of random words and their look-alikes under 8-, 16- or 20-bit packing", 300, 3000), ("capped calls in which one record shares more than 65 536 grams with the query", 1, 25)],
            Which::Unchecked => vec![("stores grown record by record past every power of two up to 2^16", 4, 200), ("searches for the record that has just made the store 2^m - 1 .. 2^m + 2 records big", 100, 5000), ("direct distance/similarity calls", 20000, 200000), ("direct calls beyond capacity 20", 5000, 50000), ("store-level searches", 5000, 50000), ("store-level rounds with 127-1500 records", 200, 2000), ("store-level rounds with clear and re-add", 500, 5000), ("type-ahead sequences with adds in between", 1000, 10000), ("direct call sequences with words of 76-420 letters", 200, 2000), ("direct call sequences with arithmetic length relations", 300, 3000), ("store-level queries of 65-200 words", 300, 3000), ("searches on a surviving store after a neighbour store was dropped", 3000, 30000), ("stores filled on one thread and searched on another", 500, 5000), ("direct calls whose arguments share their buffers", 5000, 50000), ("jaccard calls on sets of 256-70000 distinct elements", 20, 200), ("hook matrix accesses", 1000000, 10000000), ("hook matrix growths", 3, 3), ("hook matrix max size", 50, 50), ("hook counter accesses", 10000, 100000), ("hook cost accesses", 100000, 1000000), ("hook jaccard accesses", 10000, 100000)],
        }
    }
    #[allow(unused_variables)]
    fn run(&self, cx: &mut Cx, stream: &str, idx: u64) {
        match (self.0, stream) {
            #[cfg(lucid_suggest_verif)]
            (Which::Distance, "exhaustive") => {
                let alpha: Vec<char> = if cx.tier == Tier::Thorough { cv("aebc1x") } else { cv("ab1x") };
                let words = all_words(&alpha, 4);
                let w1 = &words[idx as usize % words.len()];
                for w2 in &words {
                    private::check_distance(cx, None, w1, w2, true);
                    if cx.viols.len() >= 50 {
                        break;
                    }
                }
                cx.count_n("exhaustive pairs", words.len() as u64);
            }
            #[cfg(lucid_suggest_verif)]
            (Which::Distance, "random") => {
                // mostly few symbols (many repeats, many transpositions); one case in six a real-size alphabet: words
                // with more than 20 / 32 / 64 distinct letters (per-letter tables beyond their initial capacity)
                let alpha: Vec<char> = match cx.rng.below(7) {
                    5 => {
                        // letters that agree in their low 8, 16 or 20 bits (what a table indexed by part of a code point confuses)
                        cx.count("random cases over letters that agree in their low 8, 16 or 20 bits");
                        cv("a\u{161}\u{10061}\u{100061}e\u{165}\u{20065}b\u{10062}\u{100062}1\u{131}\u{10031}")
                    }
                    0 => cv("a𝐀e😀b1xжcd漢i"),
                    1 => {
                        cx.count("random cases over an alphabet of 41-110 symbols");
                        let mut a = cv("abcdefghijklmnopqrstuvwxyzäöüßё0123456789");
                        if cx.rng.chance(1, 2) {
                            a.extend((0..70u32).filter_map(|k| std::char::from_u32(0x430 + k)));
                        }
                        a
                    }
                    2 => cv("aeiob\0cdf19xж"),
                    3 if cx.rng.chance(1, 2) => cv("ae\0\u{7f}\u{80}\u{ff}\u{100}\u{7ff}\u{800}\u{ffff}\u{10000}\u{1ffff}\u{10ffff}b"),
                    4 => {
                        // letters that some mapping identifies with each other (case, title case, compatibility forms): for the
                        // distance they are as different as any two letters
                        cx.count("random cases over letters related by case or compatibility mappings");
                        cv("aAbBжЖǅǆǄıIİiſsK\u{212a}σς1ａ")
                    }
                    _ => cv("aeiobcdf19xж"),
                };
                // half of the cases run their whole call history on an instance of their own, so that
                // growth steps (22 -> 34 -> 52 -> 79) are crossed thousands of times with different pasts
                let own = if cx.rng.chance(1, 2) { Some(DamerauLevenshtein::new()) } else { None };
                if own.is_some() {
                    cx.count("random cases on an instance of their own");
                }
                // one case in five assigns character classes per position (the same letter may be a vowel in
                // one word and unclassified in the other, as with words tokenised under different languages)
                let free = cx.rng.chance(1, 5);
                private::FREE_CLASSES.with(|f| f.set(if free { Some(cx.rng.next()) } else { None }));
                if free {
                    cx.count("random cases with per-position character classes");
                }
                let miri = cx.tier == Tier::Miri;
                if !miri && cx.rng.chance(1, 4) {
                    // one word held fixed on one side while the other side grows past every capacity step, nothing in
                    // between (what a search does: one query word against record word after record word)
                    let inst = DamerauLevenshtein::new();
                    let fixed: Vec<char> = (0..cx.rng.range(2, 7)).map(|_| *cx.rng.pick(&alpha)).collect();
                    let tf = classed(&fixed);
                    let fixed_first = cx.rng.chance(1, 2);
                    let mut lens = vec![3usize, 25, 4, 40, 5, 60, 3, 90];
                    if cx.rng.chance(1, 2) {
                        lens = vec![cx.rng.range(1, 8), cx.rng.range(21, 33), cx.rng.range(34, 51), cx.rng.range(1, 8), cx.rng.range(52, 78)];
                    }
                    for n in lens {
                        let other: Vec<char> = (0..n).map(|_| *cx.rng.pick(&alpha)).collect();
                        let to = classed(&other);
                        cx.ctx(format!("C16 fixed word {:?} ({}) against {:?}", s(&fixed), if fixed_first { "first" } else { "second" }, s(&other)));
                        let (got, want) = if fixed_first {
                            (inst.distance(&tf.view(0), &to.view(0)), DamerauLevenshtein::new().distance(&tf.view(0), &to.view(0)))
                        } else {
                            (inst.distance(&to.view(0), &tf.view(0)), DamerauLevenshtein::new().distance(&to.view(0), &tf.view(0)))
                        };
                        cx.eval();
                        cx.count("calls with one word held fixed while the other grows");
                        if got != want {
                            cx.fail_sig("distance-law", "distance-law:depends-on-history".into(), json!({"fixed_word": s(&fixed), "fixed_side": if fixed_first { "first" } else { "second" }, "other_word": s(&other),
                                "history": "one instance; the fixed word against other words of 3-90 letters in a row, nothing in between", "distance": got, "fresh_instance": want}));
                            break;
                        }
                    }
                }
                for step in 0..(if miri { 2 } else { 6 }) {
                    let k = if alpha.len() > 40 { cx.rng.range(21, alpha.len()) } else { cx.rng.range(2, alpha.len()) };
                    let long = (step + idx as usize) % 2 == 0;
                    let n1 = if long { if miri { cx.rng.range(21, 26) } else { cx.rng.range(18, 70) } } else { cx.rng.below(9) };
                    let c1: Vec<char> = (0..n1).map(|_| alpha[cx.rng.below(k)]).collect();
                    let c2: Vec<char> = match cx.rng.below(4) {
                        0 => c1.clone(),
                        1 => gen::rand_edit(&mut cx.rng, &c1, &alpha),
                        2 => {
                            let mut e = gen::rand_edit(&mut cx.rng, &c1, &alpha);
                            e = gen::rand_edit(&mut cx.rng, &e, &alpha);
                            e
                        }
                        _ => {
                            let n2 = if cx.rng.chance(1, 3) && !miri { cx.rng.range(18, 70) } else { cx.rng.below(9) };
                            (0..n2).map(|_| alpha[cx.rng.below(k)]).collect()
                        }
                    };
                    let deep = c1.len() <= 10 && c2.len() <= 10;
                    private::check_distance(cx, own.as_ref(), &c1, &c2, deep);
                    if c1.len().max(c2.len()) > 20 {
                        cx.count("random pairs beyond capacity 20");
                    }
                }
                if !miri && cx.rng.chance(1, 30) {
                    // a pair of words that hold more than 256 DIFFERENT letters between them (130-400 consecutive code points
                    // each, or one word of 257-400): whatever is numbered, indexed or counted per distinct letter goes past 2^8
                    let start = *cx.rng.pick(&[0x4e00u32, 0x3400, 0xac00, 0x20000, 0x100]);
                    let n1 = cx.rng.range(130, 400);
                    let c1: Vec<char> = (0..n1 as u32).filter_map(|k| std::char::from_u32(start + k)).collect();
                    let c2: Vec<char> = match cx.rng.below(4) {
                        0 => {
                            // the same word with its last letter replaced by its first
                            let mut x = c1.clone();
                            let last = x.len() - 1;
                            x[last] = x[0];
                            x
                        }
                        1 => (0..cx.rng.range(130, 400) as u32).filter_map(|k| std::char::from_u32(start + 200 + k)).collect(),
                        2 => gen::rand_edit(&mut cx.rng, &c1, &c1),
                        _ => {
                            // letter k replaced by letter k + 256 of the same range
                            let mut x = c1.clone();
                            let at = cx.rng.below(x.len());
                            x[at] = std::char::from_u32(x[at] as u32 + 256).unwrap_or('q');
                            x
                        }
                    };
                    let distinct: BTreeSet<char> = c1.iter().chain(c2.iter()).cloned().collect();
                    if distinct.len() > 256 {
                        cx.count("pairs holding more than 256 different letters");
                    }
                    private::check_distance(cx, own.as_ref(), &c1, &c2, false);
                    private::check_distance(cx, own.as_ref(), &c2, &c1, false);
                }
                private::FREE_CLASSES.with(|f| f.set(None));
            }
            #[cfg(lucid_suggest_verif)]
            (Which::Distance, "session") => {
                // one instance answering more than 2^16 (sometimes 2^17) calls over a small alphabet; a few letters occur
                // in the very first calls only and come back exactly 65 536 calls later - per-call tags, epochs and
                // lazily cleared tables that wrap after many calls would show as a difference from a fresh instance
                let inst = DamerauLevenshtein::new();
                let rare = cv("cqyz");
                let common = cv("abx1e");
                let first = cx.rng.below(3);
                let two = idx % 4 == 1;
                let total = if two { 131_072 + first + 6 } else { 65_536 + first + 6 };
                let mut judged = 0u64;
                if idx % 2 == 0 {
                    // the instance has grown once (a word of 24-60 letters) before the long run of small calls begins
                    let long: Vec<char> = (0..cx.rng.range(24, 60)).map(|_| *cx.rng.pick(&common)).collect();
                    let tl = classed(&long);
                    let _ = inst.distance(&tl.view(0), &tl.view(0));
                    cx.count("sessions on an instance that grew before the run of small calls");
                }
                for k in 0..total {
                    let base = if k >= 65_536 { k - 65_536 } else { k };
                    let base = if base >= 65_536 { base - 65_536 } else { base };
                    let special = base >= first && base < first + 3;
                    let (c1, c2): (Vec<char>, Vec<char>) = if special && k < 65_536 {
                        // the rare letters in the first word, once
                        let w: Vec<char> = (0..3).map(|_| *cx.rng.pick(&rare)).collect();
                        (w.clone(), w)
                    } else if special {
                        // 65 536 (131 072) calls later: the rare letters in the second word only
                        let a: Vec<char> = (0..3).map(|_| *cx.rng.pick(&common)).collect();
                        let mut b = a.clone();
                        b.remove(0);
                        b.push(*cx.rng.pick(&rare));
                        (a, b)
                    } else {
                        let n1 = cx.rng.range(1, 4);
                        let n2 = cx.rng.range(1, 4);
                        ((0..n1).map(|_| *cx.rng.pick(&common)).collect(), (0..n2).map(|_| *cx.rng.pick(&common)).collect())
                    };
                    // around every power of two the pair is one whose distance rests on the cost of a leading cheap letter
                    // (a vowel or a digit dropped or added in front)
                    let sensitive = !special && (3..=17).any(|b| {
                        let p = 1usize << b;
                        k + 3 >= p && k <= p + 2
                    });
                    let (c1, c2) = if sensitive {
                        let w: Vec<char> = (0..cx.rng.range(1, 3)).map(|_| *cx.rng.pick(&common)).collect();
                        let lead = *cx.rng.pick(&['a', 'e', '1']);
                        let mut longer = vec![lead];
                        longer.extend(w.iter());
                        if k % 2 == 0 { (longer, w) } else { (w, longer) }
                    } else {
                        (c1, c2)
                    };
                    let (t1, t2) = (classed(&c1), classed(&c2));
                    if special || k % 8192 == 0 {
                        cx.ctx(format!("C16 session call #{} {:?} {:?}", k + 1, s(&c1), s(&c2)));
                    }
                    let got = inst.distance(&t1.view(0), &t2.view(0));
                    let near_power = (3..=17).any(|b| {
                        let p = 1usize << b;
                        k + 3 >= p && k <= p + 2
                    });
                    if special || near_power || k % 17 == 0 || k + 8 >= total {
                        let want = DamerauLevenshtein::new().distance(&t1.view(0), &t2.view(0));
                        judged += 1;
                        if got != want {
                            cx.fail_sig("distance-law", "distance-law:depends-on-history".into(), json!({"word1": s(&c1), "word2": s(&c2), "distance": got, "fresh_instance": want,
                                "history": format!("call #{} on one instance: the letters {:?} occurred in the first words of calls #{}-#{} only, every other call used {:?}", k + 1, s(&rare), first + 1, first + 3, s(&common))}));
                            return;
                        }
                    }
                }
                cx.evals_n(judged);
                cx.count_n("session calls on one instance", total as u64);
                cx.count_max("most calls on one instance max ", total as u64);
                cx.key(hparts(&["session", &idx.to_string(), &first.to_string()]));
            }
            #[cfg(lucid_suggest_verif)]
            (Which::Jaccard, "exhaustive") => {
                let alpha = cv("abc\0");
                let words = all_words(&alpha, if cx.tier == Tier::Thorough { 5 } else { 4 });
                let w1 = &words[idx as usize % words.len()];
                for w2 in &words {
                    private::check_jaccard(cx, w1, w2);
                    if cx.viols.len() >= 50 {
                        break;
                    }
                }
                cx.count_n("exhaustive pairs", words.len() as u64);
            }
            #[cfg(lucid_suggest_verif)]
            (Which::Jaccard, "random") => {
                let wide = cx.tier != Tier::Miri && cx.rng.chance(1, 8);
                let alpha: Vec<char> = if wide {
                    // more than 32 / 64 / 128 distinct symbols, code points above U+FFFF, equal low byte / low 16 bits
                    let mut a: Vec<char> = cv("abcdefghijklmnopqrstuvwxyzäöüßё0123456789");
                    a.extend((0..120u32).filter_map(|k| std::char::from_u32(0x400 + k)));
                    a.extend((0..40u32).filter_map(|k| std::char::from_u32(0x10061 + k * 0x100)));
                    a.extend((0..40u32).filter_map(|k| std::char::from_u32(0x1F600 + k)));
                    a.extend((0..8u32).filter_map(|k| std::char::from_u32(0x161 + k * 0x100)));
                    cx.count("random cases over a wide alphabet");
                    a
                } else if cx.rng.chance(1, 6) {
                    // code points at the edges of every encoding length and table size
                    cx.count("random cases over boundary code points");
                    cv("\0\u{1}\u{7f}\u{80}\u{81}\u{ff}\u{100}\u{7ff}\u{800}\u{d7ff}\u{e000}\u{ffff}\u{10000}\u{10001}\u{1ffff}\u{20000}\u{10ffff}ab")
                } else if cx.rng.chance(1, 6) {
                    // elements that agree in their low 8, 16 or 20 bits
                    cx.count("random cases over elements that agree in their low 8, 16 or 20 bits");
                    cv("a\u{161}\u{10061}\u{100061}e\u{165}\u{20065}b\u{10062}\u{100062}1\u{131}\u{10031}")
                } else if cx.rng.chance(1, 3) {
                    // U+0000 (the library's own fill value) is a character like any other
                    cv("\0abcdefghijklmnopqrstuvwxyzäöüßё")
                } else {
                    cv("abcdefghijklmnopqrstuvwxyzäöüßё")
                };
                for step in 0..(if cx.tier == Tier::Miri { 3 } else { 8 }) {
                    let k = cx.rng.range(1, alpha.len());
                    let long = (step + idx as usize) % 2 == 0;
                    let top = if wide { if cx.rng.chance(1, 12) { 20_000 } else { 1200 } } else { 60 };
                    let k = if wide && cx.rng.chance(1, 3) { (*cx.rng.pick(&[63usize, 64, 65, 127, 128, 129, 255, 256, 257])).min(alpha.len()) } else { k };
                    let n1 = if long { cx.rng.range(20, top) } else { cx.rng.below(7) };
                    let n2 = if cx.rng.chance(1, 2) { cx.rng.range(20, top) } else { cx.rng.below(7) };
                    // lengths at and next to powers of two, against an empty or tiny other side
                    let edges = [0usize, 1, 2, 3, 4, 7, 8, 9, 15, 16, 17, 31, 32, 33, 63, 64, 65, 127, 128, 129, 255, 256, 257, 1023, 1024, 1025, 4095, 4096, 4097];
                    let (n1, n2) = if cx.tier != Tier::Miri && cx.rng.chance(1, 5) {
                        cx.count("pairs with a length at or next to a power of two");
                        let a = *cx.rng.pick(&edges);
                        let b = if cx.rng.chance(1, 2) { cx.rng.below(3) } else { *cx.rng.pick(&edges) };
                        if cx.rng.chance(1, 2) { (a, b) } else { (b, a) }
                    } else {
                        (n1, n2)
                    };
                    let (n1, n2) = if cx.tier != Tier::Miri && cx.rng.chance(1, 400) {
                        // one side longer than 2^17 elements, the other short and with repeats (and the other way round)
                        cx.count("pairs with one side longer than 131 072 elements");
                        if cx.rng.chance(1, 2) { (cx.rng.range(131_073, 140_000), cx.rng.range(3, 40)) } else { (cx.rng.range(3, 40), cx.rng.range(131_073, 140_000)) }
                    } else {
                        (n1, n2)
                    };
                    let s1: Vec<char> = (0..n1).map(|_| alpha[cx.rng.below(k)]).collect();
                    let s2: Vec<char> = if cx.rng.chance(1, 5) && n1 < 100_000 { let mut x = s1.clone(); cx.rng.shuffle(&mut x); x } else { (0..n2).map(|_| alpha[cx.rng.below(k)]).collect() };
                    private::check_jaccard(cx, &s1, &s2);
                }
            }
            (Which::Index, "stores") => self.index_case(cx, LANGS[(idx % NL) as usize]),
            (Which::Index, "long") => self.index_long_case(cx, LANGS[(idx % NL) as usize]),
            (Which::Index, "sparse") => self.index_sparse_case(cx, LANGS[(idx % NL) as usize]),
            (Which::Index, "session") => self.index_session_case(cx, LANGS[((idx / 4) % NL) as usize]),
            (Which::Index, "corpus") => {
                let lang: &'static str = if idx % 2 == 0 { "en" } else { "none" };
                with_corpus_store(lang, |st, recs| {
                    let rgrams: Vec<BTreeSet<oracle::Gram>> = recs.iter().map(|r| oracle::grams_of(&st.tok_record(&r.1))).collect();
                    for _ in 0..20 {
                        let t = cx.rng.pick(recs).1.clone();
                        let q = if cx.rng.chance(1, 3) { t.chars().take(cx.rng.range(1, 3)).collect() } else { gen::related_query(&mut cx.rng, lang, &st.store.lang, &t) };
                        let size = *cx.rng.pick(&[0, 1, 2, 3, 5, 10, 50, 400]);
                        self.index_check(cx, lang, st, &recs.len(), &rgrams, &q, size, &json!("whole e-commerce corpus"));
                        cx.count("corpus prepare calls");
                    }
                });
            }
            #[cfg(lucid_suggest_verif)]
            (Which::Unchecked, "direct") => private::unchecked_direct(cx),
            (Which::Unchecked, "store") => self.unchecked_store(cx),
            _ => {}
        }
    }
    fn assumptions(&self) -> Vec<&'static str> {
        match self.0 {
            Which::Distance | Which::Jaccard => vec!["private matcher types are reached through `#[cfg(lucid_suggest_verif)] pub use` re-exports only; no behaviour is changed by the hook"],
            Which::Index => vec!["gram sets are recomputed from the public tokeniser's words (first letter, first two letters, every 3-window)"],
            Which::Unchecked => vec![
                "in-range is decided by the hook's own assertion (row and column individually) plus the standard library's unsafe-precondition checks; a clean run is not memory safety for inputs never generated",
            ],
        }
    }
}
