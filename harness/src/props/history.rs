//! C01, C10, C20: call histories on long-lived stores.

use crate::bridge::bridge;
use crate::common::*;
use crate::fw::*;
use crate::gen;
use crate::props::finds::{corpus_recs, with_corpus_store};
use lucid_suggest_core::*;
use serde_json::json;
use std::collections::BTreeMap;

#[derive(Clone, Copy, PartialEq, Eq)]
pub enum Which {
    NoCrash,  // C01
    NoStale,  // C10
    Registry, // C20
}

pub struct History(pub Which);

// ------------------------------------------------------------------------------------------------
// C10

#[derive(Clone, Debug)]
enum Op {
    Add(String, usize),
    Clear,
    Limit(usize),
    Markers(&'static str, &'static str),
    Search(String),
    /// A record with the id of the first record added so far (ids need not be distinct).
    Readd(String, usize),
    /// Activity on ANOTHER store living on the same thread (other language, other records): an add
    /// and a search there. Not part of the observed store's content, limit or markers.
    Other(String),
    /// n times in a row: clear, then one record (a word from a small pool that shares no gram with the words the planted
    /// histories search for). One entry in the history shown, however large n is.
    Lives(usize),
}

const LIVES_POOL: [&str; 5] = ["quiz", "jukebox", "why", "fjord", "gypsy"];

impl Op {
    fn show(&self) -> String {
        match self {
            Op::Add(t, r) => format!("add({:?},{})", t, r),
            Op::Readd(t, r) => format!("add(again under the first record's id: {:?},{})", t, r),
            Op::Clear => "clear".into(),
            Op::Limit(n) => format!("limit({})", n),
            Op::Markers(a, b) => format!("markers({:?},{:?})", a, b),
            Op::Search(q) => format!("search({:?})", q),
            Op::Other(q) => format!("on another store of this thread: add({:?},1) search({:?})", q, q),
            Op::Lives(n) => format!("{} times: clear, add(one of {:?} in turn, 1)", n, LIVES_POOL),
        }
    }
}

struct Model {
    lang: &'static str,
    recs: Vec<Rec>,
    limit: usize,
    markers: (&'static str, &'static str),
    next_id: usize,
}

/// Drive one history on one long-lived store, comparing every search with a freshly built store.
fn run_history(cx: &mut Cx, lang: &'static str, ops: &[Op], sample: bool, across_threads: bool, oracle_thread: bool) -> bool {
    if oracle_thread {
        cx.count("histories whose reference stores are built and searched on threads of their own");
    }
    let mut st = St::new(lang, 10, ("[", "]"));
    if across_threads {
        cx.count("histories whose searches run on other threads than the adds (the store is moved there and back)");
    }
    let mut m = Model { lang, recs: vec![], limit: 10, markers: ("[", "]"), next_id: 1 };
    let mut shown: Vec<String> = vec![];
    let mut searched = false;
    let mut mutated_after_search = false;
    let mut nontrivial = false;
    let mut last_mut = "";
    let mut mutated_since_last_search = false;
    let mut last_query: Option<String> = None;
    let mut other: Option<St> = None;
    for op in ops {
        if let Op::Other(q) = op {
            shown.push(op.show());
            cx.ctx(format!("C10 lang={} history={:?}", lang, shown));
            let o = other.get_or_insert_with(|| {
                let olang = LANGS[(hstr(q) % NL) as usize];
                St::build(olang, &[(900, "metal detector".to_string(), 3), (901, "yellow mailbox wi-fi".to_string(), 1), (902, "ёлка straße".to_string(), 2)], 3, ("{", "}"))
            });
            let id = 1000 + o.store.records.len();
            o.add(&(id, q.clone(), 1));
            let _ = o.search(q);
            let _ = o.search("");
            cx.count("operations on another store of the same thread inside a history");
            continue;
        }
        if !matches!(op, Op::Search(_)) {
            mutated_since_last_search = true;
        }
        shown.push(op.show());
        cx.ctx(format!("C10 lang={} history={:?}", lang, shown));
        match op {
            Op::Add(t, r) => {
                let rec = (m.next_id, t.clone(), *r);
                m.next_id += 1;
                st.add(&rec);
                m.recs.push(rec);
                if searched {
                    mutated_after_search = true;
                }
                last_mut = "add";
            }
            Op::Readd(t, r) => {
                let id = m.recs.first().map(|x| x.0).unwrap_or(m.next_id);
                let rec = (id, t.clone(), *r);
                st.add(&rec);
                m.recs.push(rec);
                if searched {
                    mutated_after_search = true;
                }
                last_mut = "add";
                cx.count("adds re-using the id of an earlier record");
            }
            Op::Clear => {
                st.store.clear();
                m.recs.clear();
                if searched {
                    mutated_after_search = true;
                }
                last_mut = "clear";
            }
            Op::Lives(n) => {
                for k in 0..*n {
                    st.store.clear();
                    m.recs.clear();
                    let rec = (m.next_id, LIVES_POOL[k % LIVES_POOL.len()].to_string(), 1);
                    m.next_id += 1;
                    st.add(&rec);
                    m.recs.push(rec);
                }
                if searched {
                    mutated_after_search = true;
                }
                last_mut = "clear";
            }
            Op::Limit(n) => {
                st.store.limit = *n;
                m.limit = *n;
                if searched {
                    mutated_after_search = true;
                }
                last_mut = "limit";
            }
            Op::Markers(a, b) => {
                st.store.highlight_with((a, b));
                m.markers = (a, b);
                if searched {
                    mutated_after_search = true;
                }
                last_mut = "markers";
            }
            Op::Other(_) => {}
            Op::Search(q) => {
                let got = if across_threads {
                    // `Store` is `Send`: hand it to a new thread for this search and take it back
                    let q2 = q.clone();
                    let (back, got) = match std::thread::spawn(move || {
                        let got = st.search(&q2);
                        (st, got)
                    })
                    .join()
                    {
                        Ok(x) => x,
                        Err(e) => std::panic::resume_unwind(e),
                    };
                    st = back;
                    got
                } else {
                    st.search(q)
                };
                let fresh = St::build(m.lang, &m.recs, m.limit, m.markers);
                let exp = if oracle_thread {
                    // the reference answer from a thread that has never run anything else (per-thread scratch state of
                    // the library in its initial condition), instead of from this thread's shared scratch state
                    let (l, recs, lim, mk, q2) = (m.lang, m.recs.clone(), m.limit, m.markers, q.clone());
                    match std::thread::spawn(move || St::build(l, &recs, lim, mk).search(&q2)).join() {
                        Ok(x) => x,
                        Err(e) => std::panic::resume_unwind(e),
                    }
                } else {
                    fresh.search(q)
                };
                cx.eval();
                if mutated_since_last_search && last_query.as_deref().map(|l| l.trim_end() == q.trim_end()).unwrap_or(false) {
                    cx.count("search repeating the previous query after a mutation");
                }
                mutated_since_last_search = false;
                last_query = Some(q.clone());
                if mutated_after_search {
                    nontrivial = true;
                    cx.count(&format!("search after {} following an earlier search", last_mut));
                    if q.chars().all(|c| !c.is_alphanumeric()) {
                        cx.count("empty-query search after a mutation following an earlier search");
                    }
                }
                if got != exp {
                    cx.fail("stale-answer", json!({"lang": lang, "history": shown, "got": got, "fresh_store_returns": exp}));
                    return false;
                }
                // repeating the search gives the same answer
                let again = st.search(q);
                cx.eval();
                if again != got {
                    cx.fail("repeat-differs", json!({"lang": lang, "history": shown, "first": got, "second": again}));
                    return false;
                }
                searched = true;
            }
        }
    }
    if nontrivial {
        cx.key(hstr(&format!("{}{:?}", lang, shown)));
        if sample && cx.want_sample() {
            cx.sample(|| json!({"lang": lang, "history": shown}));
        }
    }
    true
}

/// The same kind of history driven through the top-level registry API (what the JS wrapper calls), with a
/// neighbour id of another language that receives every query text first. Compared with a fresh `Store`.
fn run_history_registry(cx: &mut Cx, lang: &'static str, ops: &[Op]) {
    let base = (cx.idx as usize + 900_000) * 4;
    let (id, other) = (base, base + 1);
    let olang = LANGS[((cx.idx + 3) % NL) as usize];
    create_store(id, take_lang(lang));
    create_store(other, take_lang(olang));
    add_record(other, 1, "universities running für ёлка metal mailbox", 1);
    let mut m = Model { lang, recs: vec![], limit: DEFAULT_LIMIT, markers: ("[", "]"), next_id: 1 };
    let mut shown: Vec<String> = vec![format!("create({}, {}) create({}, {})", id, lang, other, olang)];
    let mut searches = 0;
    for op in ops {
        shown.push(op.show());
        cx.ctx(format!("C10 registry lang={} history={:?}", lang, shown));
        match op {
            Op::Add(t, r) => {
                add_record(id, m.next_id, t, *r);
                m.recs.push((m.next_id, t.clone(), *r));
                m.next_id += 1;
            }
            Op::Readd(t, r) => {
                let rid = m.recs.first().map(|x| x.0).unwrap_or(m.next_id);
                add_record(id, rid, t, *r);
                m.recs.push((rid, t.clone(), *r));
            }
            Op::Clear => {
                if m.recs.len() % 2 == 0 {
                    // the registry has no clear of its own: destroy + create is what the wrapper does
                    destroy_store(id);
                    create_store(id, take_lang(lang));
                    set_limit(id, m.limit);
                    highlight_with(id, m.markers);
                } else {
                    // ... or the store is emptied in place through the registry's accessor
                    using_store(id, |s| s.clear());
                }
                m.recs.clear();
            }
            Op::Lives(n) => {
                for k in 0..*n {
                    using_store(id, |s| s.clear());
                    m.recs.clear();
                    add_record(id, m.next_id, LIVES_POOL[k % LIVES_POOL.len()], 1);
                    m.recs.push((m.next_id, LIVES_POOL[k % LIVES_POOL.len()].to_string(), 1));
                    m.next_id += 1;
                }
            }
            Op::Limit(n) => {
                // (every other time the limit is written into the public field of the store the registry hands out)
                if shown.len() % 2 == 0 {
                    set_limit(id, *n);
                } else {
                    using_store(id, |s| s.limit = *n);
                    if let Some(h) = shown.last_mut() {
                        h.push_str(" [through using_store]");
                    }
                    cx.count("registry-driven histories: limits written through using_store");
                }
                m.limit = *n;
            }
            Op::Markers(a, b) => {
                highlight_with(id, (a, b));
                m.markers = (a, b);
            }
            Op::Other(q) => {
                add_record(other, 100 + shown.len(), q, 1);
                run_search(other, q);
            }
            Op::Search(q) => {
                run_search(other, q);
                run_search(id, q);
                // (one reader in three takes the hits out of the buffer it is handed instead of copying them)
                let got: Hits = if searches % 3 == 2 {
                    cx.count("registry-driven histories: hits taken out of the result buffer");
                    using_results(id, |b| std::mem::take(b)).into_iter().map(|r| (r.id, r.title)).collect()
                } else {
                    using_results(id, |b| b.iter().map(|r| (r.id, r.title.clone())).collect())
                };
                let exp = St::build(m.lang, &m.recs, m.limit, m.markers).search(q);
                cx.eval();
                searches += 1;
                if got != exp {
                    cx.fail("stale-answer", json!({"lang": lang, "through": "top-level registry API; a neighbour id of another language receives each query text first", "neighbour_lang": olang, "history": shown, "got": got, "fresh_store_returns": exp}));
                    break;
                }
            }
        }
    }
    destroy_store(id);
    destroy_store(other);
    cx.count_n("registry-driven searches compared with a fresh store", searches);
    if searches > 0 {
        cx.key(hstr(&format!("registry{}{:?}", lang, shown)));
    }
}

/// C10 soak: more than 2^16 searches on one store; compared with a freshly built store around every
/// power of two (where narrow counters wrap) and at every 97th search otherwise.
fn c10_soak(cx: &mut Cx, lang: &'static str) {
    let words = ["metal", "mailbox", "yellow", "shirt", "wi", "fi", "the", "für", "ёлка", "t-shirt", "straße", "detector"];
    let mut recs: Vec<Rec> = (0..cx.rng.range(3, 9)).map(|i| (i + 1, format!("{} {}", cx.rng.pick(&words), cx.rng.pick(&words)), cx.rng.below(9))).collect();
    let limit = *cx.rng.pick(&[1usize, 2, 3, 10]);
    let mut st = St::build(lang, &recs, limit, ("[", "]"));
    let mut fresh = St::build(lang, &recs, limit, ("[", "]"));
    let queries: Vec<String> = words.iter().flat_map(|w| vec![w.to_string(), w.chars().take(2).collect::<String>()]).chain(vec![String::new()]).collect();
    let total: usize = 70_000;
    let mut compared = 0u64;
    for k in 0..total {
        // the last two words' queries are used by the first few searches only and come back after 2^16
        // searches and at the end; the rest cycles
        let lead = k < 6 || (65_536..65_560).contains(&k) || k + 12 >= total;
        let q = if lead { &queries[queries.len() - 1 - (k % 5)] } else { &queries[(k * 5 + k / 31) % (queries.len() - 5)] };
        let got = st.search(q);
        let n = k + 1;
        let near_power = lead || (8..=17).any(|b| { let p = 1usize << b; n + 6 >= p && n <= p + 12 });
        if near_power || n % 97 == 0 || n == total {
            cx.ctx(format!("C10 soak lang={} records={:?} limit={} search #{} q={:?}", lang, recs, limit, n, q));
            let exp = fresh.search(q);
            compared += 1;
            if got != exp {
                cx.fail("stale-answer", json!({"lang": lang, "records": recs, "limit": limit, "history": format!("{} searches on one store (queries cycling through {:?}), no mutation since the last add", n, queries),
                    "search_number": n, "query": q, "got": got, "fresh_store_returns": exp}));
                return;
            }
        }
        if n % 20011 == 0 {
            let r = (100 + n, format!("{} {}", cx.rng.pick(&words), cx.rng.pick(&words)), cx.rng.below(9));
            st.add(&r);
            recs.push(r);
            fresh = St::build(lang, &recs, limit, ("[", "]"));
        }
    }
    cx.evals_n(compared);
    cx.count_n("soak searches on one store", total as u64);
    cx.count_n("soak searches compared with a fresh store", compared);
    cx.key(hparts(&[lang, &format!("{:?}", recs), "soak"]));
}

const EXH_OPS: usize = 9;

fn exh_op(k: usize, lang: &str) -> Op {
    let (a, b) = match lang {
        "de" | "xd" => ("straße", "über"),
        "ru" => ("ёлка", "еж"),
        "fr" => ("cœur", "élève"),
        _ => ("metal", "mailbox"),
    };
    match k {
        0 => Op::Add(a.to_string(), 5),
        1 => Op::Add(b.to_string(), 7),
        2 => Op::Clear,
        3 => Op::Limit(1),
        4 => Op::Limit(3),
        5 => Op::Search(String::new()),
        6 => Op::Search(a.chars().take(2).collect()),
        7 => Op::Limit(0),
        _ => Op::Markers("<", ">"),
    }
}

fn random_op(rng: &mut Rng, lang: &str, allow_clear: bool, last_q: &mut Option<String>) -> Op {
    // re-issue the previous query (verbatim or with a trailing separator: same words, same grams)
    // after whatever happened in between - memoised per-query state must not survive a change
    if let Some(q) = last_q.clone() {
        if rng.chance(1, 4) {
            return Op::Search(if rng.chance(1, 3) { format!("{} ", q) } else { q });
        }
        if rng.chance(1, 6) && q.chars().count() > 21 {
            // the previous long query again with its last letters changed (same length, same first 20 letters)
            let mut cs: Vec<char> = q.chars().collect();
            let n = cs.len();
            for k in (n - n.min(6))..n {
                cs[k] = *rng.pick(&gen::lower_alphabet(lang));
            }
            let other: String = cs.into_iter().collect();
            *last_q = Some(other.clone());
            return Op::Search(other);
        }
        if rng.chance(1, 5) && q.chars().count() < 12 {
            // type-ahead: the previous query plus one more letter (following a known word where possible)
            let words = ["metal", "mailbox", "yellow", "shirt", "caramel", "melon", "meter", "straße", "microbiologically"];
            let next = words.iter().find(|w| w.starts_with(q.as_str()) && w.len() > q.len()).and_then(|w| w[q.len()..].chars().next());
            let c = next.unwrap_or_else(|| *rng.pick(&gen::lower_alphabet(lang)));
            let longer = format!("{}{}", q, c);
            *last_q = Some(longer.clone());
            return Op::Search(longer);
        }
    }
    let op = random_op_inner(rng, lang, allow_clear);
    if let Op::Search(q) = &op {
        *last_q = Some(q.clone());
    }
    op
}

fn random_op_inner(rng: &mut Rng, lang: &str, allow_clear: bool) -> Op {
    if rng.chance(1, 16) {
        // the same title again with another rating (duplicates, and re-adds after a clear)
        return Op::Add("metal mailbox".to_string(), rng.below(9));
    }
    if rng.chance(1, 16) {
        let t = if rng.chance(1, 2) { "metal mailbox".to_string() } else { format!("{} {}", rng.pick(&["metal", "mailbox", "yellow", "shirt"]), gen::any_word(rng, lang)) };
        return Op::Readd(t, rng.below(9));
    }
    let words = ["metal", "mailbox", "yellow", "shirt", "t", "wi", "fi", "the", "für", "ёлка", "a", "t-shirt", "straße", "microbiologically-engineered", "caramel", "melon"];
    let pickw = |rng: &mut Rng| -> String { if rng.chance(1, 3) { gen::any_word(rng, lang) } else { rng.pick(&words).to_string() } };
    match rng.below(if allow_clear { 12 } else { 11 }) {
        0 | 1 | 2 | 3 => {
            let t = if rng.chance(1, 12) { rng.pick(&["", " - ", "!!!", "'"]).to_string() } else { format!("{} {}", pickw(rng), pickw(rng)) };
            Op::Add(t, rng.below(5))
        }
        4 => Op::Limit(*rng.pick(&[0, 1, 2, 3, 5, 10, 65536])),
        5 => {
            let (a, b) = *rng.pick(gen::MARKERS);
            Op::Markers(a, b)
        }
        11 => Op::Clear,
        _ => {
            let q = match rng.below(5) {
                0 | 1 => String::new(),
                2 => pickw(rng),
                3 => pickw(rng).chars().take(2).collect(),
                _ => gen::rand_word(rng, &gen::lower_alphabet(lang), 25, 60),
            };
            Op::Search(q)
        }
    }
}

// ------------------------------------------------------------------------------------------------
// C01

fn c01_title(rng: &mut Rng, lang: &str, corpus: &[Rec]) -> String {
    if rng.chance(1, 60) {
        // letters whose code points have bits above the 16th / 20th set, between words that differ from their neighbours in
        // exactly those bits (grams that collide under a narrow packed key, the same gram on both sides of them)
        return rng.pick(&["ac ab\u{100000}d ac", "xca xa\u{20061} xca", "zar x\u{20061}r zar", "ba \u{10fffd}a ba", "cb\u{10428} qxc\u{10428} cb"]).to_string();
    }
    match rng.below(10) {
        0 | 1 | 2 => gen::hostile(rng, 12),
        3 => {
            // the shapes the known trap needs: short first word + separator + word, and its joined spelling
            let a = gen::rand_word(rng, &gen::lower_alphabet(lang), 1, 2);
            let b = gen::any_word(rng, lang);
            let fws: Vec<&'static str> = crate::props::ranking::function_words(lang).into_iter().filter(|f| f.chars().count() >= 3).collect();
            if !fws.is_empty() && rng.chance(1, 3) {
                // a function word of the language and, further right, the same letters as two adjacent words ("into ... in-to",
                // "seitdem ... seit dem"): a query word can match the function word alone and the two pieces jointly
                let f: Vec<char> = rng.pick(&fws).chars().collect();
                let k = rng.range(1, f.len() - 1);
                let sep = *rng.pick(&[" ", "-", "'", ". "]);
                let lead = if rng.chance(1, 2) { format!("{} ", b) } else { String::new() };
                let mid = if rng.chance(1, 2) { format!("{} ", gen::any_word(rng, lang)) } else { String::new() };
                return format!("{}{} {}{}{}{} {}", lead, s(&f), mid, s(&f[..k]), sep, s(&f[k..]), a);
            }
            format!("{}{}{}", a, rng.pick(gen::SEPS1), b)
        }
        _ => gen::realistic_title(rng, lang, corpus),
    }
}

fn c01_query(rng: &mut Rng, lang: &str, lobj: &Lang, titles: &[String]) -> String {
    match rng.below(10) {
        0 => String::new(),
        1 | 2 | 3 => gen::hostile(rng, 8),
        4 => gen::rand_word(rng, &gen::lower_alphabet(lang), 20, 70),
        _ => {
            if titles.is_empty() {
                gen::hostile(rng, 5)
            } else {
                let t = rng.pick(titles).clone();
                let q = gen::related_query(rng, lang, lobj, &t);
                if rng.chance(1, 4) {
                    // drop all separators: joined spelling of the whole title prefix
                    q.chars().filter(|c| c.is_alphanumeric()).collect()
                } else {
                    q
                }
            }
        }
    }
}

impl History {
    fn c01_case(&self, cx: &mut Cx, lang: &'static str) {
        let corpus = corpus_recs();
        let (ml, mr) = if cx.rng.chance(1, 2) { (S1.to_string(), S2.to_string()) } else { (gen::hostile(&mut cx.rng, 3), gen::hostile(&mut cx.rng, 3)) };
        let mut st = St::new(lang, gen::rand_limit(&mut cx.rng), (&ml, &mr));
        let mut titles: Vec<String> = vec![];
        let mut next_id = 1usize;
        let mut shown: Vec<String> = vec![];
        // record ids are arbitrary usize values: a third of the cases uses boundary values (0-based counters
        // beyond 2^32, 2^63 = isize::MIN as a bit pattern, usize::MAX downwards)
        let id_kind = cx.rng.below(12);
        let mk_id = move |k: usize| -> usize {
            match id_kind {
                0 => (1usize << 63).wrapping_add(k - 1),
                1 => usize::MAX - (k - 1),
                2 => (1usize << 63) - k,
                3 => (1usize << 32) + k,
                _ => k,
            }
        };
        if id_kind < 4 {
            cx.count("histories with boundary-value record ids");
        }
        for _ in 0..cx.rng.below(8) {
            let t = c01_title(&mut cx.rng, lang, &corpus);
            let r = cx.rng.below(1usize << 31);
            // record ids need not be distinct: one add in eight re-uses the id of an earlier record (same or new title)
            let reuse = next_id > 1 && cx.rng.chance(1, 8);
            let (k, t) = if reuse {
                cx.count("adds re-using the id of an earlier record");
                let k = cx.rng.range(1, next_id - 1);
                (k, if cx.rng.chance(1, 2) { titles[k - 1].clone() } else { t })
            } else {
                (next_id, t)
            };
            shown.push(format!("add(id {},{:?},{})", mk_id(k), t, r));
            cx.ctx(format!("C01 lang={} limit={} markers=({:?},{:?}) history={:?}", lang, st.store.limit, ml, mr, shown));
            st.add(&(mk_id(k), t.clone(), r));
            titles.push(t);
            next_id += 1;
        }
        if cx.tier != Tier::Miri && cx.rng.chance(1, 25) {
            // a crowd of 21-60 records with one rating (ties everywhere), titles with and without words in no particular
            // order, a limit above ten, and the empty query: whatever orders them is asked about every pair
            let pool = ["b", "a", "---", "", "!!!", "c a", " ", "a", "Zed", "...", "ab", "-", "b a", "\u{e9}", "B"];
            let rating = *cx.rng.pick(&[0usize, 7, 1 << 20]);
            let n = cx.rng.range(21, 60);
            for _ in 0..n {
                let t = cx.rng.pick(&pool).to_string();
                st.add(&(mk_id(next_id), t.clone(), rating));
                titles.push(t);
                next_id += 1;
            }
            st.store.limit = cx.rng.range(11, 40);
            shown.push(format!("{} adds with rating {} and titles from {:?}, limit({})", n, rating, pool, st.store.limit));
            for q in ["", " ", "-"].iter() {
                shown.push(format!("search({:?})", q));
                cx.ctx(format!("C01 lang={} limit={} markers=({:?},{:?}) history={:?}", lang, st.store.limit, ml, mr, shown));
                let hits = st.search(q);
                cx.eval();
                cx.trace_hits(&hits);
            }
            cx.count("histories with a crowd of 21-60 equally rated records, some without words, under the empty query");
        }
        let nops = cx.rng.range(1, 12);
        let mut interesting = false;
        for _ in 0..nops {
            match cx.rng.below(10) {
                0 | 1 => {
                    let t = c01_title(&mut cx.rng, lang, &corpus);
                    let r = cx.rng.below(1usize << 31);
                    let reuse = next_id > 1 && cx.rng.chance(1, 6);
                    let (k, t) = if reuse {
                        cx.count("adds re-using the id of an earlier record");
                        let k = cx.rng.range(1, next_id - 1);
                        (k, if cx.rng.chance(1, 2) { titles[k - 1].clone() } else { t })
                    } else {
                        (next_id, t)
                    };
                    shown.push(format!("add(id {},{:?},{})", mk_id(k), t, r));
                    cx.ctx(format!("C01 lang={} history={:?}", lang, shown));
                    st.add(&(mk_id(k), t.clone(), r));
                    titles.push(t);
                    next_id += 1;
                }
                2 => {
                    let l = gen::rand_limit(&mut cx.rng);
                    shown.push(format!("limit({})", l));
                    st.store.limit = l;
                    cx.count(match l {
                        0 => "limit 0",
                        1 => "limit 1",
                        65536 => "limit 65536",
                        _ => "limit 2-12",
                    });
                }
                3 => {
                    let (a, b) = (gen::hostile(&mut cx.rng, 3), gen::hostile(&mut cx.rng, 3));
                    shown.push(format!("markers({:?},{:?})", a, b));
                    cx.ctx(format!("C01 lang={} history={:?}", lang, shown));
                    st.store.highlight_with((&a, &b));
                    if cx.rng.chance(1, 2) {
                        st.store.highlight_with((&S1.to_string(), &S2.to_string()));
                        shown.push("markers(sentinels)".into());
                    }
                }
                _ => {
                    let q = c01_query(&mut cx.rng, lang, &st.store.lang, &titles);
                    shown.push(format!("search({:?})", q));
                    cx.ctx(format!("C01 lang={} history={:?}", lang, shown));
                    let hits = st.search(&q);
                    cx.eval();
                    cx.trace_hits(&hits);
                    cx.count("searches");
                    if !q.is_ascii() {
                        cx.count("non-ASCII queries");
                    }
                    let words = st.tok_query(&q).words.len();
                    for h in &hits {
                        let spans = h.1.matches(S1).count();
                        if spans > 0 {
                            interesting = true;
                        }
                        if words == 1 && spans >= 2 {
                            cx.count("joined-record hits (two spans from a one-word query)");
                        }
                    }
                    if !hits.is_empty() {
                        cx.count("searches with hits");
                    }
                }
            }
        }
        if interesting {
            cx.key(hstr(&format!("{}{:?}", lang, shown)));
            if cx.want_sample() {
                cx.sample(|| json!({"lang": lang, "history": shown}));
            }
        }
    }

    /// Long hostile strings straight into the tokenisers and a one-record store.
    fn c01_long(&self, cx: &mut Cx, lang: &'static str) {
        let n = cx.rng.range(30, 600);
        let text: String = if cx.rng.chance(1, 12) {
            // one word of 600-3000 letters, or a title of 1000-3000 words
            let alpha = gen::lower_alphabet(lang);
            cx.count("long-text cases with a giant word or a 1000+ word title");
            if cx.rng.chance(1, 2) {
                format!("{} {}", gen::rand_word(&mut cx.rng, &alpha, 600, 3000), gen::rand_word(&mut cx.rng, &alpha, 3, 6))
            } else {
                (0..cx.rng.range(1000, 3000)).map(|_| gen::rand_word(&mut cx.rng, &alpha, 1, 5)).collect::<Vec<_>>().join(" ")
            }
        } else if cx.rng.chance(1, 3) {
            // many different ordinary words: hundreds of distinct grams shared by title and query
            let alpha = gen::lower_alphabet(lang);
            (0..n / 3).map(|_| gen::rand_word(&mut cx.rng, &alpha, 2, 7)).collect::<Vec<_>>().join(" ")
        } else {
            (0..n).map(|_| *cx.rng.pick(gen::HOSTILE)).collect()
        };
        cx.ctx(format!("C01 long lang={} text={:?}", lang, text));
        let st = St::build_sentinel(lang, &[(1, text.clone(), 3)], 10);
        let t: Vec<char> = text.chars().collect();
        for _ in 0..4 {
            let (a, b) = match if t.len() > 4000 { 2 } else { cx.rng.below(4) } {
                0 => (0, t.len()), // the whole text typed back
                1 => {
                    let a = cx.rng.below(t.len());
                    (a, (a + cx.rng.range(100, 900)).min(t.len()))
                }
                _ => {
                    let a = cx.rng.below(t.len());
                    (a, (a + cx.rng.range(1, 80)).min(t.len()))
                }
            };
            let q = s(&t[a..b]);
            if b - a > 255 {
                cx.count("long-text searches with a query over 255 characters");
            }
            cx.ctx(format!("C01 long lang={} text={:?} q={:?}", lang, text, q));
            let hits = st.search(&q);
            cx.eval();
            cx.trace_hits(&hits);
            cx.count("long-text searches");
            if !hits.is_empty() {
                cx.key(hparts(&[lang, &text, &q]));
            }
        }
    }

    /// Soak: one long-lived store answering more than 2^16 non-empty searches (per-store counters,
    /// epochs and statistics that only wrap after many calls). Every search is observed (panic
    /// supervision); a rolling hash of all results is traced every 4096 searches for the build comparison.
    fn c01_soak(&self, cx: &mut Cx, lang: &'static str) {
        let corpus = corpus_recs();
        let mut st = St::sentinel(lang, 5);
        let mut titles: Vec<String> = vec![];
        for i in 0..cx.rng.range(3, 8) {
            let t = gen::realistic_title(&mut cx.rng, lang, &corpus);
            st.add(&(i + 1, t.clone(), cx.rng.below(100)));
            titles.push(t);
        }
        if cx.idx % 4 == 3 {
            // an add soak first: more than 2^16 records in one store
            for k in 0..66_000usize {
                st.add(&(10_000 + k, if k % 977 == 0 { gen::realistic_title(&mut cx.rng, lang, &corpus) } else { format!("r{}", k % 89) }, k % 1000));
            }
            cx.count("soak stores with more than 2^16 records");
        }
        let queries: Vec<String> = (0..40).map(|_| c01_query(&mut cx.rng, lang, &st.store.lang, &titles)).filter(|q| q.chars().count() < 24).collect();
        let total: usize = if cx.idx % 4 == 3 { 3_000 } else { 70_000 };
        let mut rolling: u64 = 17;
        let mut with_hits = 0u64;
        for k in 0..total {
            let q = &queries[(k * 7 + k / 40) % queries.len().max(1)];
            if k % 8192 == 0 {
                cx.ctx(format!("C01 soak lang={} titles={:?} search #{} q={:?}", lang, titles, k + 1, q));
            }
            let hits = st.search(q);
            rolling = mix(rolling, hash_hits(&hits));
            if !hits.is_empty() {
                with_hits += 1;
            }
            if (k + 1) % 4096 == 0 || k + 1 == total {
                cx.trace_note(&format!("soak #{} {:016x}", k + 1, rolling));
            }
            if k % 9973 == 0 && k > 0 {
                let t = gen::realistic_title(&mut cx.rng, lang, &corpus);
                st.add(&(1000 + k, t.clone(), cx.rng.below(100)));
                titles.push(t);
            }
        }
        cx.evals_n(total as u64);
        cx.count_n("soak searches on one store", total as u64);
        cx.count_max("most searches on one store max ", total as u64);
        if with_hits > 0 {
            cx.key(hparts(&[lang, &format!("{:?}", titles), "soak"]));
        }
    }

    /// The same kind of history through the top-level registry functions (what the WASM bridge calls): two ids
    /// of different languages, adds (ids may repeat), limits, hostile markers, searches, reads of the result
    /// buffer, destroy and re-create. Crash-only; every read is traced for the build comparison.
    fn c01_registry(&self, cx: &mut Cx, lang: &'static str) {
        let corpus = corpus_recs();
        let base = (cx.idx as usize + 2_000_000) * 4;
        let ids = [base, base + 1];
        let langs: [&'static str; 2] = [lang, LANGS[((cx.idx / NL + 1) % NL) as usize]];
        let mut live = [false, false];
        let mut titles: Vec<String> = vec![];
        let mut shown: Vec<String> = vec![];
        let nops = cx.rng.range(6, 30);
        for _ in 0..nops {
            let k = cx.rng.below(2);
            let (id, l) = (ids[k], langs[k]);
            if !live[k] {
                shown.push(format!("create({}, {})", id, l));
                create_store(id, take_lang(l));
                live[k] = true;
                continue;
            }
            match cx.rng.below(12) {
                0 => {
                    shown.push(format!("destroy({})", id));
                    cx.ctx(format!("C01 registry history={:?}", shown));
                    destroy_store(id);
                    live[k] = false;
                }
                1 | 2 | 3 | 4 => {
                    let t = c01_title(&mut cx.rng, l, &corpus);
                    let rid = if cx.rng.chance(1, 6) { 1 } else { cx.rng.below(50) };
                    let r = cx.rng.below(1usize << 31);
                    shown.push(format!("add({},{},{:?},{})", id, rid, t, r));
                    cx.ctx(format!("C01 registry history={:?}", shown));
                    add_record(id, rid, &t, r);
                    titles.push(t);
                }
                5 | 6 => {
                    let lim = gen::rand_limit(&mut cx.rng);
                    shown.push(format!("limit({},{})", id, lim));
                    cx.ctx(format!("C01 registry history={:?}", shown));
                    set_limit(id, lim);
                    cx.count("registry: limit changes");
                }
                7 => {
                    let (a, b) = (gen::hostile(&mut cx.rng, 3), gen::hostile(&mut cx.rng, 3));
                    shown.push(format!("markers({},{:?},{:?})", id, a, b));
                    cx.ctx(format!("C01 registry history={:?}", shown));
                    highlight_with(id, (&a, &b));
                }
                _ => {
                    let q = with_lang(l, |lo| c01_query(&mut cx.rng, l, lo, &titles));
                    shown.push(format!("search({},{:?})", id, q));
                    cx.ctx(format!("C01 registry history={:?}", shown));
                    run_search(id, &q);
                    // some readers act on a live store while they hold the buffer (a marker change or an add, on this id or the other)
                    let nested = cx.rng.below(8);
                    let other = if live[1 - k] && cx.rng.chance(1, 2) { ids[1 - k] } else { id };
                    let (na, nb) = (gen::hostile(&mut cx.rng, 2), gen::hostile(&mut cx.rng, 2));
                    if nested < 2 {
                        shown.push(format!("read({}) with {} on {} inside the reader", id, if nested == 0 { "a marker change" } else { "an add" }, other));
                        cx.ctx(format!("C01 registry history={:?}", shown));
                        cx.count("registry: readers that call back into the registry");
                    }
                    let hits: Hits = using_results(id, |b| {
                        if nested == 0 {
                            highlight_with(other, (&na, &nb));
                        } else if nested == 1 {
                            add_record(other, 49, &na, 1);
                        }
                        b.iter().map(|r| (r.id, r.title.clone())).collect()
                    });
                    cx.eval();
                    cx.trace_hits(&hits);
                    cx.count("registry: searches");
                    if !hits.is_empty() {
                        cx.count("registry: searches with hits");
                    }
                }
            }
        }
        for k in 0..2 {
            if live[k] {
                destroy_store(ids[k]);
            }
        }
        cx.key(hstr(&format!("registry{:?}", shown)));
    }

    fn c01_corpus(&self, cx: &mut Cx, lang: &'static str) {
        with_corpus_store(lang, |st, recs| {
            for _ in 0..20 {
                let t = cx.rng.pick(recs).1.clone();
                let q = c01_query(&mut cx.rng, lang, &st.store.lang, &[t]);
                cx.ctx(format!("C01 corpus lang={} q={:?}", lang, q));
                let hits = st.search(&q);
                cx.eval();
                cx.trace_hits(&hits);
                cx.count("corpus-store searches");
                if hits.len() > 1 {
                    cx.key(hparts(&[lang, &q, "corpus"]));
                }
            }
        });
    }

    // --------------------------------------------------------------------------------------------
    // C20

    /// Two ids; a search on one of them, then exactly M - 1 calls that change nothing (M = 2^16 mostly; 2^8, 2^17), then one
    /// add that changes the answer, then the same search again. Whatever the registry counts in a narrow integer between two
    /// searches (calls on the id, calls on any id, searches, reads) comes back to its old value at exactly that point.
    fn registry_long_session(&self, cx: &mut Cx, lang: &'static str) {
        let a = (cx.idx as usize + 9_000_000) * 4;
        let b = a + 1;
        let kind = (cx.idx / 2) % 6;
        let m: usize = match cx.idx % 8 {
            0 | 4 => 256,
            7 if cx.tier == Tier::Thorough => 131_072,
            _ => 65_536,
        };
        let lang_b: &'static str = LANGS[((cx.idx + 5) % NL) as usize];
        let words = ["metal", "mailbox", "shirt", "bear", "polar", "brown", "für", "ёлка"];
        let mut hist: Vec<String> = vec![];
        create_store(a, take_lang(lang));
        create_store(b, take_lang(lang_b));
        let mut ma = St::new(lang, DEFAULT_LIMIT, ("[", "]"));
        let mut mb = St::new(lang_b, DEFAULT_LIMIT, ("[", "]"));
        for k in 0..cx.rng.range(1, 4) {
            let t = format!("{} {}", cx.rng.pick(&words), cx.rng.pick(&words));
            add_record(a, k, &t, k);
            ma.add(&(k, t.clone(), k));
            add_record(b, k, &t, 9 - k);
            mb.add(&(k, t, 9 - k));
        }
        let w = *cx.rng.pick(&words);
        let q: String = if cx.rng.chance(1, 3) { w.chars().take(3).collect() } else { w.to_string() };
        let qb = cx.rng.pick(&words).to_string();
        run_search(a, &q);
        run_search(b, &qb);
        let last_b = mb.search(&qb);
        hist.push(format!("create({}, {}) create({}, {}) a few adds, search({},{:?}) search({},{:?})", a, lang, b, lang_b, a, q, b, qb));
        let lim = ma.store.limit;
        let other_q = "zz";
        let mut on_a = 0usize;
        let mut total = 0usize;
        // kinds: 0 set_limit(a, same) only | 1 a mix of no-op calls on a | 2 M-1 calls on a with calls on b in between
        //        3 M-1 calls in all, on a and b alternately | 4 M-1 other searches on a | 5 M-1 reads of a's buffer
        while (if kind == 3 { total } else { on_a }) < m - 1 {
            match kind {
                0 => {
                    set_limit(a, lim);
                    on_a += 1;
                }
                1 => {
                    match total % 3 {
                        0 => set_limit(a, lim),
                        1 => highlight_with(a, ("[", "]")),
                        _ => using_store(a, |_s| ()),
                    }
                    on_a += 1;
                }
                2 => {
                    if total % 3 == 2 {
                        set_limit(b, DEFAULT_LIMIT);
                    } else {
                        set_limit(a, lim);
                        on_a += 1;
                    }
                }
                3 => {
                    if total % 2 == 0 {
                        set_limit(a, lim);
                        on_a += 1;
                    } else {
                        highlight_with(b, ("[", "]"));
                    }
                }
                4 => {
                    run_search(a, other_q);
                    on_a += 1;
                }
                _ => {
                    using_results(a, |r| r.len());
                    on_a += 1;
                }
            }
            total += 1;
        }
        hist.push(format!("{} calls that change nothing ({} of them on id {}; kind {})", total, on_a, a, kind));
        // the one call that changes the answer: a record that the query finds
        let t = format!("{} zzz", w);
        add_record(a, 777, &t, 50);
        ma.add(&(777, t.clone(), 50));
        hist.push(format!("add({}, 777, {:?}, 50) search({},{:?})", a, t, a, q));
        cx.ctx(format!("C20 session lang={} history={:?}", lang, hist));
        run_search(a, &q);
        let expect = ma.search(&q);
        let got: Hits = using_results(a, |r| r.iter().map(|x| (x.id, x.title.clone())).collect());
        let got_b: Hits = using_results(b, |r| r.iter().map(|x| (x.id, x.title.clone())).collect());
        cx.eval();
        cx.count("long registry sessions");
        cx.count_n("calls in long registry sessions", total as u64);
        if m >= 65_536 {
            cx.count("long registry sessions of 2^16 calls or more between two equal searches");
        }
        if got != expect {
            cx.fail("result-buffer-differs-from-model", json!({"lang": lang, "via_bridge": false, "history": hist, "id": a, "got": got, "expected": expect}));
        } else if got_b != last_b {
            cx.fail("result-buffer-differs-from-model", json!({"lang": lang_b, "via_bridge": false, "history": hist, "id": b, "got": got_b, "expected": last_b}));
        }
        destroy_store(a);
        destroy_store(b);
        if expect.len() >= 2 {
            cx.key(hstr(&format!("session{}{}{}{:?}", lang, kind, m, q)));
        }
    }

    fn registry_case(&self, cx: &mut Cx, lang: &'static str, via_bridge: bool) {
        // usually three ids; sometimes up to twenty; ids spaced so that they collide modulo small table sizes
        let nids = match cx.rng.below(20) {
            0 => cx.rng.range(21, 40),
            1..=3 => cx.rng.range(4, 20),
            _ => 3,
        };
        let stride = *cx.rng.pick(&[1usize, 1, 1, 16, 64, 256, 1 << 20, 1 << 32]);
        let first = (2 * (cx.idx as usize) + if via_bridge { 1 } else { 0 } + 40_000) * 64;
        let mut idset: Vec<usize> = (0..nids).map(|k| (first + k).wrapping_mul(stride)).collect();
        if cx.rng.chance(1, 10) {
            // extreme ids: 0, usize::MAX, and a pair that collides in its low 32 bits (only in histories that own
            // them: ids are process-wide, so they are derived from the case index where possible)
            idset[0] = usize::MAX - (first + 1);
            if nids > 1 {
                idset[1] = (first + 5) | (1usize << 32);
                if nids > 2 {
                    idset[2] = first + 5;
                }
            }
        }
        if nids > 3 {
            cx.count("histories over 4-20 store ids");
        }
        let lang: &'static str = if via_bridge { "none" } else { lang };
        let mut model: BTreeMap<usize, (St, Hits)> = BTreeMap::new();
        let mut hist: Vec<String> = vec![];
        let words = ["metal", "mailbox", "shirt", "t", "wi", "fi", "the", "für", "ёлка", "t-shirt", "straße", "university", "universities", "running", "élan"];
        let nops = cx.rng.range(5, 30);
        let mut cross = false;
        let mut last_q: Option<(usize, String)> = None;
        // reading a result buffer is itself a call: half of the histories read every live id after every call,
        // the others read a random subset now and then (and everything at the end), so that work deferred
        // until the first read would show
        let read_always = cx.rng.chance(1, 2);
        if !read_always {
            cx.count("histories whose result buffers are read only now and then");
        }
        // in half of the histories the model stores answer on threads of their own, so that nothing the model does
        // (tokenising the same text with its own language object, say) touches the thread-local state of the thread the
        // registry runs on
        let model_apart = cx.tier != Tier::Miri && cx.rng.chance(1, 2);
        if model_apart {
            cx.count("histories whose model stores answer on threads of their own");
        }
        let mut last_q_of_id: BTreeMap<usize, String> = BTreeMap::new();
        for opk in 0..nops {
            let id = *cx.rng.pick(&idset);
            let exists = model.contains_key(&id);
            let roll = if exists { 2 + cx.rng.below(10) } else { 0 };
            match roll {
                0 | 1 => {
                    if !exists {
                        hist.push(format!("create({})", id));
                        cx.ctx(format!("C20 lang={} history={:?}", lang, hist));
                        // every id has its own language: half of the time the case's, else any (the bridge has one)
                        let idlang: &'static str = if via_bridge || cx.rng.chance(1, 2) { lang } else { *cx.rng.pick(&LANGS) };
                        if idlang != lang {
                            cx.count("stores created with another language than their neighbours");
                        }
                        if let Some(h) = hist.last_mut() {
                            *h = format!("create({}, lang {})", id, idlang);
                        }
                        if via_bridge {
                            bridge::create_store(id);
                        } else {
                            create_store(id, take_lang(idlang));
                        }
                        model.insert(id, (St::new(idlang, DEFAULT_LIMIT, ("[", "]")), vec![]));
                    }
                }
                2 if exists && !via_bridge && cx.rng.chance(1, 4) => {
                    // the store is emptied in place through the registry's accessor (the result buffer keeps the last hits)
                    hist.push(format!("using_store({}, clear)", id));
                    cx.ctx(format!("C20 lang={} history={:?}", lang, hist));
                    using_store(id, |s| s.clear());
                    model.get_mut(&id).unwrap().0.store.clear();
                    cx.count("stores emptied in place through using_store");
                }
                2 => {
                    if exists && cx.rng.chance(1, 3) {
                        hist.push(format!("destroy({})", id));
                        cx.ctx(format!("C20 lang={} history={:?}", lang, hist));
                        if via_bridge {
                            bridge::destroy_store(id);
                        } else {
                            destroy_store(id);
                        }
                        model.remove(&id);
                        cx.count("destroy");
                    }
                }
                3 | 4 => {
                    if exists && cx.rng.chance(1, 25) {
                        // a burst of records: result buffers beyond the default capacity and beyond 40 hits
                        let n = if cx.rng.chance(1, 6) { cx.rng.range(310, 420) } else { cx.rng.range(45, 120) };
                        hist.push(format!("add x{} 'metal <k>' to {}", n, id));
                        cx.ctx(format!("C20 lang={} history={:?}", lang, hist));
                        // half of the bursts are families of similar words (many records share grams with a query without
                        // matching it): how many of them are looked at depends on the limit
                        let family = cx.rng.chance(1, 2);
                        let fam = ["metal", "mettle", "medal", "meter", "melon", "metla", "abcdqqqqq", "abdcxyz"];
                        for k in 0..n {
                            let t = if family { format!("{} {}", fam[k % fam.len()], k) } else { format!("metal {}", k) };
                            let (rid, ra) = (if k % 3 == 0 { (1usize << 32) + k } else { 2000 + k }, k % 7);
                            if via_bridge {
                                bridge::add_record(id, rid, &t, ra);
                            } else {
                                add_record(id, rid, &t, ra);
                            }
                            model.get_mut(&id).unwrap().0.add(&(rid, t, ra));
                        }
                        cx.count("bursts of 45-120 records");
                    } else if exists {
                        // two words, now and then glued by a U+0000 (a control character: still two words) or by nothing
                        let glue = if cx.rng.chance(1, 15) { *cx.rng.pick(&["\0", "\0 ", "\u{1}", ""]) } else { " " };
                        let t = format!("{}{}{}", cx.rng.pick(&words), glue, cx.rng.pick(&words));
                        let rid = cx.rng.below(1000);
                        let ra = cx.rng.below(9);
                        hist.push(format!("add({},{},{:?},{})", id, rid, t, ra));
                        cx.ctx(format!("C20 lang={} history={:?}", lang, hist));
                        if via_bridge {
                            bridge::add_record(id, rid, &t, ra);
                        } else if cx.rng.chance(1, 6) {
                            // the record is prepared by the caller and added through the registry's accessor
                            if let Some(h) = hist.last_mut() {
                                h.push_str(" [through using_store]");
                            }
                            using_store(id, |s| {
                                let rec = Record::new(rid, &t, ra, &s.lang);
                                s.add(rec);
                            });
                            cx.count("records added through using_store");
                        } else {
                            add_record(id, rid, &t, ra);
                        }
                        model.get_mut(&id).unwrap().0.add(&(rid, t, ra));
                    }
                }
                5 => {
                    if exists {
                        let lim = *cx.rng.pick(&[0, 1, 2, 3, 4, 12, 40, 41, 64, 100, 300, 1000]);
                        hist.push(format!("limit({},{})", id, lim));
                        cx.ctx(format!("C20 lang={} history={:?}", lang, hist));
                        if via_bridge {
                            bridge::set_limit(id, lim);
                        } else if cx.rng.chance(1, 4) {
                            // the limit is a public field of the store the registry hands out
                            if let Some(h) = hist.last_mut() {
                                *h = format!("using_store({}, |s| s.limit = {})", id, lim);
                            }
                            using_store(id, |s| s.limit = lim);
                            cx.count("limits written through using_store");
                        } else {
                            set_limit(id, lim);
                        }
                        model.get_mut(&id).unwrap().0.store.limit = lim;
                    }
                }
                6 => {
                    if exists {
                        let (mut a, mut b) = *cx.rng.pick(gen::MARKERS);
                        if cx.rng.chance(1, 3) {
                            // two marker pairs one right after the other, the second closely related to the first
                            let step = cx.rng.pick(gen::MARKER_STEPS);
                            let (first, second) = if cx.rng.chance(1, 2) { (step[0], step[1]) } else { (step[1], step[0]) };
                            hist.push(format!("markers({},{:?},{:?})", id, first.0, first.1));
                            if via_bridge {
                                bridge::highlight_with(id, first.0, first.1);
                            } else {
                                highlight_with(id, first);
                            }
                            a = second.0;
                            b = second.1;
                            cx.count("marker pairs set right after a closely related pair");
                        }
                        hist.push(format!("markers({},{:?},{:?})", id, a, b));
                        cx.ctx(format!("C20 lang={} history={:?}", lang, hist));
                        if via_bridge {
                            bridge::highlight_with(id, a, b);
                        } else {
                            highlight_with(id, (a, b));
                        }
                        model.get_mut(&id).unwrap().0.store.highlight_with((a, b));
                    }
                }
                _ => {
                    if exists {
                        let q = match cx.rng.below(4) {
                            0 => String::new(),
                            1 => cx.rng.pick(&words).to_string(),
                            2 => cx.rng.pick(&words).chars().take(2).collect(),
                            _ => gen::hostile(&mut cx.rng, 4),
                        };
                        let q = if cx.rng.chance(1, 6) { cx.rng.pick(&["metla", "mtal", "emtal", "abcdxyz", "medla", "meta"]).to_string() } else { q };
                        // the text just sent to another id, sent to this one as well
                        let q = match &last_q {
                            Some((lid, lq)) if *lid != id && cx.rng.chance(1, 2) => {
                                cx.count("searches repeating the text just sent to another id");
                                lq.clone()
                            }
                            _ => q,
                        };
                        // ... or the text this id was sent last - also before it was destroyed and created again
                        let q = match last_q_of_id.get(&id) {
                            Some(lq) if cx.rng.chance(1, 3) => {
                                cx.count("searches repeating the text this id was sent last");
                                lq.clone()
                            }
                            _ => q,
                        };
                        last_q_of_id.insert(id, q.clone());
                        last_q = Some((id, q.clone()));
                        hist.push(format!("search({},{:?})", id, q));
                        cx.ctx(format!("C20 lang={} history={:?}", lang, hist));
                        if via_bridge {
                            bridge::run_search(id, &q);
                        } else {
                            run_search(id, &q);
                        }
                        if model_apart {
                            let (mst, _) = model.remove(&id).unwrap();
                            let q2 = q.clone();
                            let (mst, hits) = on_new_thread(move || {
                                let hits = mst.search(&q2);
                                (mst, hits)
                            });
                            model.insert(id, (mst, hits));
                        } else {
                            let m = model.get_mut(&id).unwrap();
                            m.1 = m.0.search(&q);
                        }
                        if !via_bridge && cx.rng.chance(1, 10) {
                            // a locale switch: the id is destroyed, created again under another language with the same
                            // records, and sent the very same text, with nothing else in between
                            let old = model.remove(&id).unwrap().0;
                            let newlang: &'static str = LANGS[((hstr(&q) as usize + opk) % LANGS.len()) as usize];
                            let recs_now: Vec<(usize, String, usize)> = old.store.records.iter().map(|r| (r.id, r.title.source.iter().filter(|c| **c != '\0').collect::<String>(), r.rating)).collect();
                            hist.push(format!("destroy({}) create({}, lang {}) {} adds search({},{:?})", id, id, newlang, recs_now.len(), id, q));
                            cx.ctx(format!("C20 lang={} history={:?}", lang, hist));
                            destroy_store(id);
                            create_store(id, take_lang(newlang));
                            let mut fresh = St::new(newlang, DEFAULT_LIMIT, ("[", "]"));
                            for r in &recs_now {
                                add_record(id, r.0, &r.1, r.2);
                                fresh.add(r);
                            }
                            run_search(id, &q);
                            let hits = if model_apart {
                                let q2 = q.clone();
                                let (f2, h) = on_new_thread(move || {
                                    let h = fresh.search(&q2);
                                    (fresh, h)
                                });
                                fresh = f2;
                                h
                            } else {
                                fresh.search(&q)
                            };
                            model.insert(id, (fresh, hits));
                            cx.count("ids destroyed and created again under another language, then sent the same text");
                        }
                        let m = model.get_mut(&id).unwrap();
                        cx.count("searches");
                        if cx.rng.chance(1, 4) {
                            // the limit changes and the very same text is searched again on the same id
                            let lim = *cx.rng.pick(&[1usize, 2, 3, 4, 12]);
                            hist.push(format!("limit({},{}) search({},{:?})", id, lim, id, q));
                            cx.ctx(format!("C20 lang={} history={:?}", lang, hist));
                            if via_bridge {
                                bridge::set_limit(id, lim);
                                bridge::run_search(id, &q);
                            } else {
                                set_limit(id, lim);
                                run_search(id, &q);
                            }
                            m.0.store.limit = lim;
                            m.1 = m.0.search(&q);
                            cx.count("searches repeated on the same id after a limit change");
                        }
                    }
                }
            }
            // one history in eight, half-way: a crowd of records that tie in rating AND title (copies under different ids) arrives
            // at a live id, the empty query is answered under a generous limit, the limit is lowered, and the empty query is
            // answered again with nothing in between - which of the tied copies are listed is whatever a stand-alone store with
            // that limit lists (draws from a generator of its own: the rest of the history is what it would have been anyway)
            if (cx.idx / 12) % 8 == 3 && opk == nops / 2 && model.contains_key(&id) {
                let mut r2 = Rng::new(mix(cx.idx, 0x71ed));
                let copies = r2.range(8, 40);
                let names = ["anna", "anna b", "bob", "", "élan"];
                let nn = r2.range(1, names.len());
                let ra = r2.below(9);
                let (l1, l2) = *r2.pick(&[(40usize, 12usize), (64, 41), (41, 12), (100, 40), (300, 100), (12, 4), (64, 3)]);
                hist.push(format!("add x{} ({} titles x {} copies, rating {}) to {}; limit({},{}) search({},\"\") limit({},{}) search({},\"\")", copies * nn, nn, copies, ra, id, id, l1, id, id, l2, id));
                cx.ctx(format!("C20 lang={} history={:?}", lang, hist));
                for k in 0..copies * nn {
                    let (rid, t) = (5000 + k, names[k % nn]);
                    if via_bridge {
                        bridge::add_record(id, rid, t, ra);
                    } else {
                        add_record(id, rid, t, ra);
                    }
                    model.get_mut(&id).unwrap().0.add(&(rid, t.to_string(), ra));
                }
                for (step, lim) in [l1, l2].iter().enumerate() {
                    if via_bridge {
                        bridge::set_limit(id, *lim);
                        bridge::run_search(id, "");
                    } else {
                        set_limit(id, *lim);
                        run_search(id, "");
                    }
                    let m = model.get_mut(&id).unwrap();
                    m.0.store.limit = *lim;
                    m.1 = m.0.search("");
                    {
                        // (each list is read as soon as it is there)
                        let got: Hits = if via_bridge {
                            let ids = bridge::get_result_ids(id);
                            let titles = bridge::get_result_titles(id);
                            let mut fields: Vec<String> = titles.split('\0').map(|x| x.to_string()).collect();
                            fields.pop();
                            ids.into_iter().zip(fields.into_iter()).collect()
                        } else {
                            using_results(id, |b| b.iter().map(|r| (r.id, r.title.clone())).collect())
                        };
                        cx.eval();
                        if got != m.1 {
                            cx.fail("result-buffer-differs-from-model", json!({"lang": lang, "via_bridge": via_bridge, "history": hist, "id": id, "got": got, "expected": m.1, "at": format!("after empty search {} of the two in the last step", step + 1)}));
                        }
                    }
                }
                last_q_of_id.insert(id, String::new());
                last_q = Some((id, String::new()));
                cx.count("crowds of tied copies listed under a generous limit and again under a lower one");
            }
            // observe the live ids
            let read_now = read_always || (cx.idx / 12) % 8 == 3 && opk == nops / 2 || opk + 1 == nops || cx.rng.chance(1, 4);
            // now and then a reader does something to a store while it holds the result buffer (copying hits into another
            // store is the obvious use): add a record to a live id - the reader's own or another - from inside the closure
            let nested: Option<(usize, usize, usize, String, usize)> = if !via_bridge && !model.is_empty() && cx.rng.chance(1, 12) {
                let live: Vec<usize> = model.keys().cloned().collect();
                let reader = *cx.rng.pick(&live);
                let target = *cx.rng.pick(&live);
                Some((reader, target, 700 + cx.rng.below(100), format!("{} {}", cx.rng.pick(&words), cx.rng.pick(&words)), cx.rng.below(9)))
            } else {
                None
            };
            for (mid, (_, last)) in model.iter() {
                let is_reader = nested.as_ref().map(|n| n.0 == *mid).unwrap_or(false);
                if !is_reader && (!read_now || (!read_always && opk + 1 != nops && cx.rng.chance(1, 2))) {
                    continue;
                }
                if is_reader {
                    let (_, target, rid, title, ra) = nested.clone().unwrap();
                    // ... or changes a store's markers (ra even: add; odd: markers)
                    let marks = gen::MARKERS[rid % gen::MARKERS.len()];
                    if ra % 2 == 0 {
                        hist.push(format!("read({}) and, inside the reader, add({},{},{:?},{})", mid, target, rid, title, ra));
                    } else {
                        hist.push(format!("read({}) and, inside the reader, markers({},{:?},{:?})", mid, target, marks.0, marks.1));
                    }
                    cx.ctx(format!("C20 lang={} history={:?}", lang, hist));
                    let got: Hits = using_results(*mid, |b| {
                        if ra % 2 == 0 {
                            add_record(target, rid, &title, ra);
                        } else {
                            highlight_with(target, marks);
                        }
                        b.iter().map(|r| (r.id, r.title.clone())).collect()
                    });
                    cx.eval();
                    cx.count("observations");
                    cx.count("reads that add a record from inside the reader");
                    if &got != last {
                        cx.fail("result-buffer-differs-from-model", json!({"lang": lang, "via_bridge": via_bridge, "history": hist, "id": mid, "got": got, "expected": last}));
                    }
                    continue;
                }
                let got: Hits = if via_bridge {
                    let ids = bridge::get_result_ids(*mid);
                    let titles = bridge::get_result_titles(*mid);
                    let mut fields: Vec<String> = titles.split('\0').map(|x| x.to_string()).collect();
                    fields.pop();
                    ids.into_iter().zip(fields.into_iter()).collect()
                } else {
                    using_results(*mid, |b| b.iter().map(|r| (r.id, r.title.clone())).collect())
                };
                cx.eval();
                cx.count("observations");
                if &got != last {
                    cx.fail("result-buffer-differs-from-model", json!({"lang": lang, "via_bridge": via_bridge, "history": hist, "id": mid, "got": got, "expected": last}));
                }
            }
            if let Some((_, target, rid, title, ra)) = nested {
                if ra % 2 == 0 {
                    model.get_mut(&target).unwrap().0.add(&(rid, title, ra));
                } else {
                    model.get_mut(&target).unwrap().0.store.highlight_with(gen::MARKERS[rid % gen::MARKERS.len()]);
                }
            }
            if model.len() >= 2 && model.values().filter(|m| !m.1.is_empty()).count() >= 2 {
                cross = true;
                cx.count("observations with >= 2 live ids holding results");
            }
        }
        let ids: Vec<usize> = model.keys().cloned().collect();
        for id in ids {
            if via_bridge {
                bridge::destroy_store(id);
            } else {
                destroy_store(id);
            }
        }
        if cross {
            cx.key(hstr(&format!("{}{}{:?}", lang, via_bridge, hist)));
            if cx.want_sample() {
                cx.sample(|| json!({"lang": lang, "via_bridge": via_bridge, "history": hist}));
            }
        }
    }
}

impl Prop for History {
    fn id(&self) -> &'static str {
        match self.0 {
            Which::NoCrash => "C01",
            Which::NoStale => "C10",
            Which::Registry => "C20",
        }
    }
    fn rule(&self) -> &'static str {
        match self.0 {
            Which::NoCrash => "histories of 1-12 calls (add / limit / markers / search) on a store created with 0-7 records, titles and queries from a hostile Unicode alphabet, realistic titles and short-word+separator shapes, limits {0,1,2..12,65536}, hostile markers, 7 languages; plus long hostile texts and the whole-corpus store; every call must return (panic hook, abort and hang supervision), and the same seeded workload is traced in the checked and the shipping-style build and compared line by line. Non-trivial = history with a search that returned a highlighted hit; distinct by history",
            Which::NoStale => "one long-lived store per history over {add, clear, set limit, set markers, search}; every search is compared with a freshly constructed store holding the model's current records/limit/markers, and repeated once; exhaustive histories over an 8-operation alphabet up to a length bound in every language, random histories of 3-14 operations beyond. Non-trivial = history containing a search preceded by a mutation that follows an earlier search; distinct by history",
            Which::Registry => "interleaved valid histories of 5-30 calls over 3 store ids through the top-level registry API (and through the natively compiled WASM bridge), after every call the result buffer of every live id is compared with an independent model store driven with the same per-id history. Non-trivial = history in which >= 2 live ids held non-empty results at once; distinct by history",
        }
    }
    fn streams(&self) -> Vec<Stream> {
        match self.0 {
            Which::NoCrash => vec![
                Stream::new("hist", 24000, 720000).asan(24000),
                Stream::new("long", 800, 8000).asan(800),
                Stream::new("corpus", 64, 1600).asan(64),
                Stream::new("soak", 16, 64).asan(4),
                Stream::new("registry", 4000, 120000).asan(4000),
                Stream::new("codepoints", 256, 256).asan(256),
            ],
            Which::NoStale => vec![Stream::new("random", 48000, 2400000).miri(12), Stream::new("exhaustive", NL * 81, NL * 81).miri(0), Stream::new("soak", 16, 64)],
            Which::Registry => vec![Stream::new("core", 16000, 800000).miri(8), Stream::new("bridge", 4000, 200000).miri(4), Stream::new("session", 48, 480)],
        }
    }
    fn floors(&self) -> Vec<(&'static str, u64, u64)> {
        match self.0 {
            Which::NoCrash => vec![("searches", 20000, 200000), ("searches with hits", 5000, 50000), ("joined-record hits (two spans from a one-word query)", 50, 500), ("non-ASCII queries", 2000, 20000), ("limit 0", 200, 2000), ("limit 65536", 200, 2000), ("histories with boundary-value record ids", 2000, 20000), ("long-text searches", 500, 5000), ("long-text searches with a query over 255 characters", 100, 1000), ("corpus-store searches", 300, 3000), ("long-text cases with a giant word or a 1000+ word title", 20, 200), ("soak searches on one store", 600000, 2500000), ("most searches on one store max ", 66000, 66000), ("soak stores with more than 2^16 records", 2, 8), ("adds re-using the id of an earlier record", 5000, 50000), ("registry: searches", 10000, 300000), ("registry: searches with hits", 1500, 45000), ("registry: limit changes", 5000, 150000), ("registry: readers that call back into the registry", 1500, 45000), ("code points put through a store", 1000000, 1000000), ("histories with a crowd of 21-60 equally rated records, some without words, under the empty query", 300, 3000)],
            Which::NoStale => vec![("search after add following an earlier search", 2000, 20000), ("search after clear following an earlier search", 500, 5000), ("search after limit following an earlier search", 500, 5000), ("empty-query search after a mutation following an earlier search", 1000, 10000), ("exhaustive histories", 20000, 200000), ("histories on a crowded store", 2000, 20000), ("histories that clear and refill a crowded store", 2000, 20000), ("histories growing a store past 64/128/256/512 records with searches in between", 200, 5000), ("histories growing a store past 1024 records with searches in between", 60, 1500), ("soak searches on one store", 1000000, 4000000), ("search repeating the previous query after a mutation", 2000, 20000), ("operations on another store of the same thread inside a history", 3000, 30000), ("registry-driven searches compared with a fresh store", 5000, 50000), ("adds re-using the id of an earlier record", 3000, 30000), ("histories whose searches run on other threads than the adds (the store is moved there and back)", 1500, 15000), ("histories whose reference stores are built and searched on threads of their own", 3000, 30000), ("histories with a very long word next to a threshold match", 2000, 20000), ("histories with more than twenty fully tied records and a shrinking limit", 2000, 20000), ("histories with two lives of the same size ending in the same query", 2000, 20000), ("histories in which a text is followed by its own normalised spelling", 2000, 20000), ("histories with two long queries that share their first twenty letters", 1500, 15000), ("histories with 2^8 or 2^16 lives of one store between two equal searches", 500, 5000), ("histories with two closely related marker pairs set one right after the other", 800, 8000)],
            Which::Registry => vec![("observations", 20000, 200000), ("observations with >= 2 live ids holding results", 2000, 20000), ("destroy", 300, 3000), ("searches", 3000, 30000), ("histories over 4-20 store ids", 1000, 10000), ("bursts of 45-120 records", 300, 3000), ("stores created with another language than their neighbours", 3000, 30000), ("searches repeating the text just sent to another id", 2000, 20000), ("histories whose result buffers are read only now and then", 5000, 50000), ("reads that add a record from inside the reader", 5000, 50000), ("searches repeated on the same id after a limit change", 5000, 50000), ("stores emptied in place through using_store", 2000, 20000), ("histories whose model stores answer on threads of their own", 5000, 50000), ("searches repeating the text this id was sent last", 3000, 30000), ("ids destroyed and created again under another language, then sent the same text", 3000, 30000), ("limits written through using_store", 500, 5000), ("marker pairs set right after a closely related pair", 1000, 10000), ("long registry sessions", 48, 480), ("long registry sessions of 2^16 calls or more between two equal searches", 30, 300), ("calls in long registry sessions", 2000000, 20000000), ("crowds of tied copies listed under a generous limit and again under a lower one", 500, 5000)],
        }
    }
    fn run(&self, cx: &mut Cx, stream: &str, idx: u64) {
        let lang = LANGS[(idx % NL) as usize];
        match (self.0, stream) {
            (Which::NoCrash, "hist") => self.c01_case(cx, lang),
            (Which::NoCrash, "long") => self.c01_long(cx, lang),
            (Which::NoCrash, "registry") => self.c01_registry(cx, lang),
            (Which::NoCrash, "codepoints") => {
                // every Unicode scalar value (4352 per case) in titles and queries of one store: inside words, at word
                // starts, alone; added, searched as typed and as part of a longer query; every hit list traced
                let lang = LANGS[((idx / 3) % NL) as usize];
                let mut st = St::sentinel(lang, 5);
                let lo = idx as u32 * 4352;
                let mut chunk: Vec<char> = vec![];
                let mut k = 0usize;
                for v in lo..lo + 4352 {
                    if let Some(c) = std::char::from_u32(v) {
                        chunk.push(c);
                        if chunk.len() == 16 {
                            let title: String = chunk.iter().map(|c| format!("x{}y {}z ", c, c)).collect();
                            cx.ctx(format!("C01 codepoints lang={} title/query with U+{:04X}..U+{:04X}", lang, chunk[0] as u32, chunk[15] as u32));
                            st.add(&(k, title.clone(), k));
                            k += 1;
                            let q1: String = format!("x{}y", chunk[3]);
                            let q2: String = format!("{}z {}", chunk[7], chunk[11]);
                            for q in [q1, q2, title.chars().take(12).collect::<String>()].iter() {
                                let hits = st.search(q);
                                cx.eval();
                                cx.trace_hits(&hits);
                            }
                            chunk.clear();
                        }
                    }
                }
                cx.count_n("code points put through a store", 4352);
                cx.key(hparts(&[lang, &lo.to_string(), "codepoints"]));
            }
            (Which::NoCrash, "soak") => self.c01_soak(cx, lang),
            (Which::NoStale, "soak") => c10_soak(cx, lang),
            (Which::NoCrash, "corpus") => self.c01_corpus(cx, if idx % 2 == 0 { "en" } else { "none" }),
            (Which::NoStale, "random") => {
                let allow_clear = cx.rng.chance(2, 3);
                let n = if cx.tier == Tier::Miri { cx.rng.range(4, 7) } else { cx.rng.range(3, 14) };
                let mut last_q = None;
                let mut ops: Vec<Op> = vec![];
                let interleave = cx.rng.chance(1, 4);
                if cx.tier != Tier::Miri && cx.rng.chance(1, 4) {
                    // a crowded store first: more records share a gram than the candidate cap of a small limit
                    let words = ["metal", "mettle", "medal", "mailbox", "me", "meter"];
                    let bulk = if cx.rng.chance(1, 10) { cx.rng.range(100, 600) } else { cx.rng.range(12, 40) };
                    for _ in 0..bulk {
                        ops.push(Op::Add(format!("{} {}", cx.rng.pick(&words), cx.rng.pick(&words)), cx.rng.below(5)));
                    }
                    ops.push(Op::Limit(*cx.rng.pick(&[0, 1, 1, 2])));
                    ops.push(Op::Search(cx.rng.pick(&["me", "metal", "m", "met"]).to_string()));
                    last_q = match ops.last() { Some(Op::Search(q)) => Some(q.clone()), _ => None };
                    cx.count("histories on a crowded store");
                }
                if cx.tier != Tier::Miri && cx.rng.chance(1, 50) {
                    // grow the store across the 64 / 128 / 256 / 512 record marks with a search at each step
                    let words = ["metal", "mailbox", "yellow", "shirt", "meter", "wi-fi"];
                    let mut k = cx.rng.range(55, 62);
                    for _ in 0..k {
                        ops.push(Op::Add(format!("{} {}", cx.rng.pick(&words), cx.rng.pick(&words)), cx.rng.below(7)));
                    }
                    let target = *cx.rng.pick(&[520usize, 520, 520, 520, 520, 520, 1040, 1040, 2060, 4110]);
                    if target > 520 {
                        cx.count("histories growing a store past 1024 records with searches in between");
                    }
                    while k < target {
                        ops.push(Op::Add(format!("{} {}", cx.rng.pick(&words), cx.rng.pick(&words)), cx.rng.below(7)));
                        k += 1;
                        if (6..=12).any(|b| { let p = 1usize << b; k + 1 >= p && k <= p + 1 }) || k % 700 == 0 {
                            ops.push(Op::Search(cx.rng.pick(&["me", "metal", "", "wifi"]).to_string()));
                        }
                    }
                    cx.count("histories growing a store past 64/128/256/512 records with searches in between");
                }
                if cx.tier != Tier::Miri && cx.rng.chance(1, 10) {
                    // a short word, a very long word that starts like it, and a query that is the short word's start behind a
                    // spurious cheap letter: the long word makes per-thread scratch grow in the middle of a search whose
                    // outcome for the short word sits at the acceptance threshold
                    let alpha = gen::lower_alphabet(lang);
                    let w = if cx.rng.chance(1, 2) { cx.rng.pick(&["house", "metal", "tiger", "rotor", "baker"]).to_string() } else { gen::rand_word(&mut cx.rng, &alpha, 4, 6) };
                    let long = format!("{}{}", w, gen::rand_word(&mut cx.rng, &alpha, 17, 60));
                    let lead = *cx.rng.pick(&['a', 'e', 'o', 'x']);
                    let q: String = std::iter::once(lead).chain(w.chars().take(3)).collect();
                    if cx.rng.chance(1, 2) {
                        ops.push(Op::Add(long.clone(), 1));
                        ops.push(Op::Add(w.clone(), 2));
                    } else {
                        ops.push(Op::Add(w.clone(), 2));
                        ops.push(Op::Search(q.clone()));
                        ops.push(Op::Add(long.clone(), 1));
                    }
                    ops.push(Op::Search(q.clone()));
                    last_q = Some(q);
                    cx.count("histories with a very long word next to a threshold match");
                }
                if cx.tier != Tier::Miri && cx.rng.chance(1, 12) {
                    // more than twenty records that tie completely in rating and normalised title (other ids, other
                    // capitalisation), the empty query under a limit that takes them all, then under a small limit
                    let titles = ["desk lamp", "Desk lamp", "DESK LAMP", "desk  lamp", "metal mailbox"];
                    let k = cx.rng.range(21, 60);
                    for _ in 0..k {
                        ops.push(Op::Add(cx.rng.pick(&titles).to_string(), cx.rng.below(3)));
                    }
                    ops.push(Op::Limit(*cx.rng.pick(&[65536usize, 100, 64])));
                    ops.push(Op::Search(String::new()));
                    ops.push(Op::Limit(*cx.rng.pick(&[1usize, 2, 3, 5, 10])));
                    ops.push(Op::Search(String::new()));
                    if cx.rng.chance(1, 2) {
                        ops.push(Op::Limit(*cx.rng.pick(&[20usize, 21, 30])));
                        ops.push(Op::Search(String::new()));
                    }
                    cx.count("histories with more than twenty fully tied records and a shrinking limit");
                }
                let mut want_oracle_thread = false;
                if cx.tier != Tier::Miri && cx.rng.chance(1, 15) {
                    // a record that is one word of 24-45 letters; a query of the same length that shares its first 20-odd
                    // letters and differs in its last ones; then the record's own spelling (judged against a reference
                    // computed on a thread of its own)
                    let alpha = gen::lower_alphabet(lang);
                    let w = if cx.rng.chance(1, 2) { format!("{}{}", "a".repeat(20), gen::rand_word(&mut cx.rng, &alpha, 4, 20)) } else { gen::rand_word(&mut cx.rng, &alpha, 24, 45) };
                    let mut cs: Vec<char> = w.chars().collect();
                    let n = cs.len();
                    for k in (n - (n - 20).min(10))..n {
                        cs[k] = *cx.rng.pick(&alpha);
                    }
                    let w2: String = cs.into_iter().collect();
                    ops.push(Op::Add(w.clone(), 3));
                    ops.push(Op::Search(w2.clone()));
                    ops.push(Op::Search(w.clone()));
                    ops.push(Op::Search(w2));
                    last_q = Some(w);
                    want_oracle_thread = true;
                    cx.count("histories with two long queries that share their first twenty letters");
                }
                if cx.tier != Tier::Miri && cx.rng.chance(1, 12) {
                    // a text, then the text its own normalisation has just produced (once composed, once reduced), as the next
                    // query or as the next title: what a language object keeps from one call must not pass for the next input
                    let v = gen::vocab(lang);
                    let w = cx.rng.pick(&v).to_string();
                    let once: String = crate::oracle::compose(lang, &cv(&w)).into_iter().collect();
                    let reduced = crate::oracle::reduce_once(lang, &w);
                    let twice = crate::oracle::reduce_once(lang, &reduced);
                    ops.push(Op::Add(format!("{} lamp", twice.to_lowercase()), 1));
                    ops.push(Op::Search(w.clone()));
                    match cx.rng.below(4) {
                        0 => ops.push(Op::Add(reduced.clone(), 2)),
                        1 => ops.push(Op::Search(reduced.clone())),
                        2 => ops.push(Op::Add(once.clone(), 2)),
                        _ => ops.push(Op::Search(once.clone())),
                    }
                    ops.push(Op::Search(twice.to_lowercase()));
                    ops.push(Op::Search(w.clone()));
                    last_q = Some(w);
                    cx.count("histories in which a text is followed by its own normalised spelling");
                }
                if cx.tier != Tier::Miri && cx.rng.chance(1, 12) {
                    // two lives of the same size: k records and a search, clear, k other records and the same search
                    let pool = ["ehat", "heat", "metal", "mtael", "form", "ofrm", "the", "hte", "ant", "nat", "mailbox"];
                    let k = cx.rng.range(1, 6);
                    let q = cx.rng.pick(&pool).to_string();
                    for _ in 0..k {
                        ops.push(Op::Add(cx.rng.pick(&pool).to_string(), cx.rng.below(5)));
                    }
                    ops.push(Op::Search(q.clone()));
                    ops.push(Op::Clear);
                    for _ in 0..k {
                        ops.push(Op::Add(cx.rng.pick(&pool).to_string(), cx.rng.below(5)));
                    }
                    ops.push(Op::Search(q.clone()));
                    last_q = Some(q);
                    cx.count("histories with two lives of the same size ending in the same query");
                }
                if cx.tier != Tier::Miri && cx.rng.chance(1, 30) {
                    // many lives: enough records of one word to fill a small limit's candidate budget and a search for it; then
                    // exactly 2^8 (one time in eight 2^16) clears, each but the last followed by one unrelated record; then a last
                    // life with as many unrelated records, one record a letter away from the first word, and the same search
                    let (w, near) = *cx.rng.pick(&[("zebra", "zebro"), ("metal", "metam"), ("mailbox", "mailbot")]);
                    let lim = cx.rng.range(1, 2);
                    let k = 10 * lim + cx.rng.below(4);
                    let lives = if cx.rng.chance(1, 8) { 65_536 } else { 256 };
                    ops.push(Op::Limit(lim));
                    for _ in 0..k {
                        ops.push(Op::Add(w.to_string(), 1));
                    }
                    ops.push(Op::Search(w.to_string()));
                    ops.push(Op::Lives(lives - 1));
                    ops.push(Op::Clear);
                    for _ in 0..k {
                        ops.push(Op::Add("why".to_string(), 1));
                    }
                    ops.push(Op::Add(near.to_string(), 1));
                    ops.push(Op::Search(w.to_string()));
                    last_q = Some(w.to_string());
                    cx.count("histories with 2^8 or 2^16 lives of one store between two equal searches");
                }
                if cx.rng.chance(1, 20) {
                    // two closely related marker pairs one right after the other, the same search after each
                    let step = cx.rng.pick(gen::MARKER_STEPS);
                    let (first, second) = if cx.rng.chance(1, 2) { (step[0], step[1]) } else { (step[1], step[0]) };
                    let q = last_q.clone().unwrap_or_else(|| "metal".to_string());
                    ops.push(Op::Add("metal mailbox".to_string(), 2));
                    ops.push(Op::Markers(first.0, first.1));
                    ops.push(Op::Search(q.clone()));
                    ops.push(Op::Markers(second.0, second.1));
                    ops.push(Op::Search(q));
                    cx.count("histories with two closely related marker pairs set one right after the other");
                }
                let refill_at = if cx.tier != Tier::Miri && cx.rng.chance(1, 5) { Some(cx.rng.below(n + 1)) } else { None };
                for k in 0..=n {
                    if refill_at == Some(k) {
                        // clear and refill with more matching records than a small limit's candidate cap:
                        // per-record state that survives clear() shows in which of them are picked
                        let words = ["metal", "mettle", "medal", "mailbox", "me", "meter", "melon"];
                        ops.push(Op::Clear);
                        for _ in 0..cx.rng.range(11, 45) {
                            ops.push(Op::Add(format!("{} {}", cx.rng.pick(&words), cx.rng.pick(&words)), cx.rng.below(7)));
                        }
                        ops.push(Op::Limit(*cx.rng.pick(&[1, 1, 2, 3])));
                        let q = cx.rng.pick(&["me", "metal", "m", "met", "mailbox"]).to_string();
                        last_q = Some(q.clone());
                        ops.push(Op::Search(q));
                        cx.count("histories that clear and refill a crowded store");
                    }
                    if k < n {
                        if interleave && cx.rng.chance(1, 3) {
                            let q = match cx.rng.below(4) {
                                0 => gen::rand_word(&mut cx.rng, &gen::lower_alphabet(lang), 25, 90),
                                1 => last_q.clone().unwrap_or_else(|| "metal".to_string()),
                                2 => gen::any_word(&mut cx.rng, lang),
                                _ => format!("{} {}", cx.rng.pick(&["metal", "mailbox", "yellow", "wi-fi"]), gen::any_word(&mut cx.rng, lang)),
                            };
                            ops.push(Op::Other(q));
                        }
                        ops.push(random_op(&mut cx.rng, lang, allow_clear, &mut last_q));
                    }
                }
                if cx.tier != Tier::Miri && cx.rng.chance(1, 6) {
                    run_history_registry(cx, lang, &ops);
                } else {
                    let across = cx.tier != Tier::Miri && cx.rng.chance(1, 12);
                    let oracle_thread = cx.tier != Tier::Miri && (want_oracle_thread || cx.rng.chance(1, 6));
                    run_history(cx, lang, &ops, true, across, oracle_thread);
                }
            }
            (Which::NoStale, "exhaustive") => {
                // case = (language, first two operations); enumerates every continuation up to the bound
                let l = LANGS[(idx % NL) as usize];
                let head = (idx / NL) as usize; // 0..81
                let (o1, o2) = (head / EXH_OPS, head % EXH_OPS);
                let maxlen = if cx.tier == Tier::Thorough { 6 } else { 5 };
                let mut total = 0u64;
                let mut ok = true;
                for len in 2..=maxlen {
                    let tail = len - 2;
                    let combos = EXH_OPS.pow(tail as u32);
                    for c in 0..combos {
                        let mut ops = vec![exh_op(o1, l), exh_op(o2, l)];
                        let mut x = c;
                        for _ in 0..tail {
                            ops.push(exh_op(x % EXH_OPS, l));
                            x /= EXH_OPS;
                        }
                        if ok {
                            total += 1;
                            ok = run_history(cx, l, &ops, c == 77, false, false);
                        }
                    }
                }
                if head < EXH_OPS {
                    // the length-1 histories
                    run_history(cx, l, &[exh_op(head, l)], false, false, false);
                    total += 1;
                }
                cx.count_n("exhaustive histories", total);
            }
            (Which::Registry, "core") => self.registry_case(cx, lang, false),
            (Which::Registry, "bridge") => self.registry_case(cx, lang, true),
            (Which::Registry, "session") => self.registry_long_session(cx, lang),
            _ => {}
        }
    }
    fn assumptions(&self) -> Vec<&'static str> {
        match self.0 {
            Which::NoCrash => vec![
                "'no hang' is checked as bounded completion: a case that exceeds 20 s (measured cost: milliseconds) is re-run alone with 180 s before it counts",
                "the shipping-style build is the repo's own release profile without the verification cfg",
            ],
            Which::NoStale => vec!["the sequential model is the library's own Store, freshly constructed for every comparison (C06/C12 check fresh stores independently)"],
            Which::Registry => vec!["the per-id model is an independent Store driven with the same history, so staleness inside one store (C10) cannot leak into this verdict"],
        }
    }
}
