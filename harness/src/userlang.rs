//! Languages that exist only inside one case: a user of the library defines them through the public `Lang` API
//! (`Lang::new()`, `add_unicode_composition`, `add_unicode_reduction`, `add_char_class`, `set_stemmer`) from tables drawn at
//! random from a menu of entry SHAPES - contracting pairs, expanding ligatures, length-preserving singletons, identity pairs,
//! pairs of separators, deletions, keys that share their first character, outputs that are another entry's input, keys
//! longer than the two-character window (inert). "For all languages" in the property texts includes these.
//!
//! The specification of such a language is its table, read the way the property texts read it ("compose then reduce, longest
//! pattern first, two-character window", one pass each): `model_pass` below is that reading, written without looking at the
//! library's normaliser (no iterator of fading windows, no skip counter - an index and two look-ups).

use crate::common::*;
use lucid_suggest_core::lang::CharClass;
use lucid_suggest_core::*;
use serde_json::json;

pub struct UserLang {
    pub lang: Lang,
    pub compose: Vec<(String, String)>,
    pub reduce: Vec<(String, String)>,
    pub stemmer: Option<&'static str>,
    pub classes: Vec<(char, &'static str)>,
    pub alphabet: Vec<String>,
}

const COMPOSE_POOL: [(&str, &str); 27] = [
    // contracting pairs (base + mark -> letter), some sharing their first character
    ("e\u{301}", "é"),
    ("E\u{301}", "É"),
    ("a\u{308}", "ä"),
    ("a\u{30a}", "å"),
    ("o\u{303}", "õ"),
    ("c\u{327}", "ç"),
    ("か\u{3099}", "が"),
    ("は\u{309a}", "ぱ"),
    ("は\u{3099}", "ば"),
    ("ש\u{5c1}", "\u{fb2a}"),
    ("ウ\u{3099}", "ヴ"),
    // expanding ligatures
    ("ゟ", "より"),
    ("ŉ", "ʼn"),
    ("ĳ", "ij"),
    ("ﬃ", "ffi"),
    ("㍿", "株式会社"),
    // length-preserving singletons (the result of one is the first character of a pair above)
    ("\u{212b}", "Å"),
    ("\u{1f71}", "\u{3ac}"),
    ("ｳ", "ウ"),
    ("\u{212a}", "K"),
    // a pair that composes to itself, pairs of separators, a deletion, a letter pair
    ("ij", "ij"),
    ("--", "\u{2014}"),
    ("..", "\u{2026}"),
    ("\u{ad}", ""),
    ("ae", "æ"),
    // keys of three characters: the library looks at two characters at a time, such entries never apply
    ("a\u{302}\u{301}", "\u{1ea5}"),
    ("sch", "š"),
];

const REDUCE_POOL: [(&str, &str); 22] = [
    // foldings of composed letters (never shorter than their key)
    ("é", "e"),
    ("É", "E"),
    ("ä", "a"),
    ("å", "aa"),
    ("õ", "o"),
    ("ç", "c"),
    ("が", "か"),
    ("ぱ", "は"),
    ("ば", "は"),
    ("ヴ", "ウ"),
    // expanding letters, a chain, plain ASCII keys
    ("ß", "ss"),
    ("ẞ", "ß"),
    ("æ", "ae"),
    ("ø", "oe"),
    ("x", "ks"),
    ("w", "v"),
    ("ゟ", "より"),
    // a two-character key, a separator, inert long keys
    ("a\u{30a}", "aa"),
    ("ss", "sz"),
    ("\u{2026}", "..."),
    ("sch", "sh"),
    ("tsch", "ch"),
];

const PLAIN: &str = "abceijnostwxz";
const CAPITALS: &str = "AEOSXÉÄẞÆ";
const OTHER: &str = "かはウよりしみשלמ株0123";
const MARKS: [&str; 6] = ["\u{301}", "\u{308}", "\u{30a}", "\u{3099}", "\u{309a}", "\u{5c1}"];
/// Characters that are neither letters nor digits; a language may label any character with any class (`add_char_class` takes
/// a `char`), and texts carry them inside words and at word edges.
const SYMBOLS: &str = "'$#+_’%@`~*/=\u{301}\u{b7}-. ";
const SEPARATORS: [&str; 10] = [" ", " ", " ", "-", ".", ", ", "'", "\u{ad}", "\0", "\u{a0}"];

impl UserLang {
    pub fn random(rng: &mut Rng) -> UserLang {
        Self::random_opts(rng, true)
    }

    /// `label_symbols`: whether the language may label characters that are no letters (apostrophe, currency sign, separators)
    /// with classes of its choice. A class label is the price of mistyping that character, so a language that calls the space a
    /// consonant makes "wi fi" a dearer spelling of "wifi" than the finding properties (C03, C04, C13, C14) assume of a
    /// separator: their streams draw languages without such labels; the tokenisation and title properties (C15, C02), on which
    /// a label has no bearing, draw them with.
    pub fn random_opts(rng: &mut Rng, label_symbols: bool) -> UserLang {
        let mut lang = Lang::new();
        let mut compose: Vec<(String, String)> = vec![];
        let mut reduce: Vec<(String, String)> = vec![];
        let dense = rng.chance(1, 4);
        for (from, to) in COMPOSE_POOL.iter() {
            if rng.chance(if dense { 2 } else { 1 }, 3) {
                compose.push((from.to_string(), to.to_string()));
            }
        }
        // one language in four folds nothing, one in eight composes nothing
        if !rng.chance(1, 4) {
            for (from, to) in REDUCE_POOL.iter() {
                if rng.chance(if dense { 2 } else { 1 }, 3) {
                    reduce.push((from.to_string(), to.to_string()));
                }
            }
        }
        if rng.chance(1, 8) {
            compose.clear();
        }
        // registration order is the user's business
        rng.shuffle(&mut compose);
        rng.shuffle(&mut reduce);
        for (from, to) in &compose {
            lang.add_unicode_composition(from, to);
        }
        for (from, to) in &reduce {
            lang.add_unicode_reduction(from, to);
        }
        let mut classes: Vec<(char, &'static str)> = vec![];
        if rng.chance(1, 3) {
            for c in "aeoäé".chars() {
                lang.add_char_class(c, CharClass::Vowel);
                classes.push((c, "vowel"));
            }
            for c in "bcnst".chars() {
                lang.add_char_class(c, CharClass::Consonant);
                classes.push((c, "consonant"));
            }
        }
        if label_symbols && rng.chance(1, 3) {
            // ... and labels a few characters that are no letters - an apostrophe, a currency sign, a combining mark, even a
            // separator - with classes of its choice (what a class label changes is the cost of mistyping that character)
            let syms = cv(SYMBOLS);
            for _ in 0..rng.range(1, 4) {
                let c = *rng.pick(&syms);
                let (class, name) = *rng.pick(&[(CharClass::Vowel, "vowel"), (CharClass::Consonant, "consonant"), (CharClass::Consonant, "consonant"), (CharClass::Any, "any"), (CharClass::NotAlpha, "not-alpha"), (CharClass::Punctuation, "punctuation")]);
                lang.add_char_class(c, class);
                classes.push((c, name));
            }
        }
        // one language in four has a stemmer: any of the eighteen Snowball algorithms the library's dependency offers (a stemmer
        // may lengthen a word - German 'ß' -> 'ss', Turkish 'aad' -> 'aadı' - or leave nothing of it - Turkish 'leri')
        use rust_stemmers::Algorithm as A;
        let stemmer = if rng.chance(1, 4) {
            let (name, algo) = *rng.pick(&[("english", A::English), ("german", A::German), ("dutch", A::Dutch), ("turkish", A::Turkish), ("turkish", A::Turkish), ("arabic", A::Arabic), ("danish", A::Danish),
                ("finnish", A::Finnish), ("french", A::French), ("greek", A::Greek), ("hungarian", A::Hungarian), ("italian", A::Italian), ("norwegian", A::Norwegian), ("portuguese", A::Portuguese),
                ("romanian", A::Romanian), ("russian", A::Russian), ("spanish", A::Spanish), ("swedish", A::Swedish), ("tamil", A::Tamil)]);
            lang.set_stemmer(Some(rust_stemmers::Stemmer::create(algo)));
            Some(name)
        } else {
            None
        };
        // what texts are made of: every character the pools mention (chosen or not), plain letters, capitals, marks, separators
        let mut alphabet: Vec<String> = vec![];
        for (from, to) in COMPOSE_POOL.iter().chain(REDUCE_POOL.iter()) {
            for piece in [*from, *to].iter() {
                if !piece.is_empty() && !alphabet.contains(&piece.to_string()) {
                    alphabet.push(piece.to_string());
                }
            }
        }
        if stemmer.is_some() {
            // words and endings that stemmers act on (whole words made of suffixes only, words a stemmer lengthens)
            for bait in ["leri", "siniz", "sunuz", "ler", "lar", "aad", "ing", "ed", "heit", "ungen", "wei\u{df}", "ation", "mente", "\u{438}\u{44f}\u{43c}\u{438}", "s", "en"].iter() {
                alphabet.push(bait.to_string());
            }
        }
        UserLang { lang, compose, reduce, stemmer, classes, alphabet }
    }

    pub fn desc(&self) -> serde_json::Value {
        json!({"built_with": "Lang::new() + add_unicode_composition / add_unicode_reduction in this order", "compositions": self.compose, "reductions": self.reduce,
               "stemmer": self.stemmer, "char_classes": self.classes.iter().map(|(c, k)| format!("{}:{}", c, k)).collect::<Vec<_>>()})
    }

    /// One word: pieces of the pools (keys and values, so that entries apply, overlap and chain), plain letters, now and
    /// then a capital or a free-standing mark.
    pub fn word(&self, rng: &mut Rng, max_pieces: usize) -> String {
        let n = rng.range(1, max_pieces.max(1));
        let mut w = String::new();
        for _ in 0..n {
            match rng.below(12) {
                0..=3 => w.push_str(rng.pick(&self.alphabet[..]).as_str()),
                4 => w.push(*rng.pick(&cv(CAPITALS))),
                5 => w.push_str(*rng.pick(&MARKS[..])),
                6 => w.push(*rng.pick(&cv(OTHER))),
                7 => w.push(*rng.pick(&cv(SYMBOLS))),
                _ => w.push(*rng.pick(&cv(PLAIN))),
            }
        }
        w
    }

    pub fn text(&self, rng: &mut Rng, max_words: usize) -> String {
        let n = rng.range(1, max_words.max(1));
        let mut t = String::new();
        if rng.chance(1, 8) {
            t.push_str(*rng.pick(&SEPARATORS[..]));
        }
        for i in 0..n {
            if i > 0 {
                t.push_str(*rng.pick(&SEPARATORS[..]));
            }
            t.push_str(&self.word(rng, 6));
        }
        if rng.chance(1, 6) {
            t.push_str(*rng.pick(&SEPARATORS[..]));
        }
        t
    }

    /// The input with the language's compositions applied (what C15 calls "the input with the language's accent sequences
    /// composed", what C02 says a returned title shows).
    pub fn composed(&self, input: &[char]) -> Vec<char> {
        model_pass(&self.compose, input)
    }
}

/// One pass of a table over a text: at every position the two-character key wins over the one-character key; what an entry
/// produced is not looked at again; keys longer than two characters never apply; of two entries with the same key the one
/// registered last counts.
pub fn model_pass(table: &[(String, String)], input: &[char]) -> Vec<char> {
    let look = |key: &[char]| -> Option<Vec<char>> {
        let k: String = key.iter().collect();
        table.iter().rev().find(|(from, _)| *from == k).map(|(_, to)| to.chars().collect())
    };
    let mut out: Vec<char> = Vec::with_capacity(input.len());
    let mut i = 0;
    while i < input.len() {
        if i + 1 < input.len() {
            if let Some(to) = look(&input[i..i + 2]) {
                out.extend(to);
                i += 2;
                continue;
            }
        }
        match look(&input[i..i + 1]) {
            Some(to) => out.extend(to),
            None => out.push(input[i]),
        }
        i += 1;
    }
    out
}
