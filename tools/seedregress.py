#!/usr/bin/env python3
"""Light regression over kept seeded breakages (not a registered check): re-runs the TARGETED check against each.

  tools/seedregress.py C07 C12 ...        # every seeded/<name> whose property is one of these
  tools/seedregress.py --names a,b,c

Unlike tools/seedcheck.py it does not re-validate the seed (tests / demonstration): it applies patch.diff to a scratch
worktree of /repo HEAD under /tmp, runs `VERIF_REPO=<worktree> ./check <property> --tier quick`, appends the outcome to the
seed's meta.json (`runs`) and removes the worktree with its build output. Seeds marked `judged_outside_quantifier` or
`out_of_reach` are skipped. Prints one line per seed and a summary; exit 1 if a seed that was caught before is now missed.
"""
import hashlib
import json
import os
import shutil
import subprocess
import sys
import time

ROOT = os.path.dirname(os.path.dirname(os.path.abspath(__file__)))


def sh(cmd, **kw):
    return subprocess.run(cmd, shell=True, stdout=subprocess.PIPE, stderr=subprocess.STDOUT, text=True, **kw)


def main():
    args = sys.argv[1:]
    base = os.path.join(ROOT, "seeded")
    if args and args[0] == "--names":
        names = args[1].split(",")
    else:
        names = []
        for n in sorted(os.listdir(base)):
            mp = os.path.join(base, n, "meta.json")
            if os.path.exists(mp) and json.load(open(mp))["property"] in args:
                names.append(n)
    lost = []
    for name in names:
        dest = os.path.join(base, name)
        meta = json.load(open(os.path.join(dest, "meta.json")))
        if meta.get("judged_outside_quantifier") or meta.get("out_of_reach"):
            print("%-70s skipped (not chased)" % name, flush=True)
            continue
        prop = meta["property"]
        wt = "/tmp/seedreg-%s-%d" % (name[:40], os.getpid())
        sh("git -C /repo worktree remove --force %s" % wt)
        sh("git -C /repo worktree add --detach %s HEAD" % wt)
        try:
            ap = sh("git -C %s apply %s" % (wt, os.path.join(dest, "patch.diff")))
            if ap.returncode != 0:
                print("%-70s patch does not apply" % name, flush=True)
                continue
            env = dict(os.environ)
            env.update({"VERIF_REPO": wt, "VERIF_EVIDENCE_DIR": os.path.join(wt, "verif-evidence"), "VERIF_REPLAY_DIR": os.path.join(wt, "verif-replays")})
            t0 = time.time()
            r = subprocess.run([os.path.join(ROOT, "check"), prop, "--tier", "quick"], env=env, cwd=ROOT, stdout=subprocess.PIPE, stderr=subprocess.STDOUT, text=True)
            fired, quiet, incon = {}, [], []
            if r.returncode == 1:
                clause = ""
                try:
                    clause = json.load(open(os.path.join(wt, "verif-replays", "%s-1-0.json" % prop)))["signature"]
                except Exception:
                    pass
                fired[prop] = clause
            elif r.returncode == 0:
                quiet.append(prop)
            else:
                incon.append(prop)
            meta.setdefault("runs", []).append({"tier": "quick", "verif_commit": sh("git -C %s rev-parse --short HEAD" % ROOT).stdout.strip(), "fired": fired, "silent": quiet, "inconclusive": incon,
                                               "command": "tools/seedregress.py: VERIF_REPO=<scratch worktree with patch.diff applied> ./check %s --tier quick" % prop})
            json.dump(meta, open(os.path.join(dest, "meta.json"), "w"), indent=1, ensure_ascii=False)
            was = prop in meta.get("caught_by", [])
            print("%-70s %s exit %d (%.0fs) %s" % (name, prop, r.returncode, time.time() - t0, fired.get(prop, "")), flush=True)
            if was and r.returncode != 1:
                lost.append(name)
        finally:
            sh("git -C /repo worktree remove --force %s" % wt)
            shutil.rmtree(wt, ignore_errors=True)
            h = hashlib.sha1(wt.encode()).hexdigest()[:10]
            for b in (os.path.join(ROOT, "target"), os.path.join(ROOT, "target", "ws"), os.path.join(ROOT, "target", "runs")):
                if os.path.isdir(b):
                    for d in os.listdir(b):
                        if d.endswith(h):
                            shutil.rmtree(os.path.join(b, d), ignore_errors=True)
    print("seeds that were caught by their targeted check before and are not now: %s" % (lost or "none"))
    return 1 if lost else 0


if __name__ == "__main__":
    sys.exit(main())
