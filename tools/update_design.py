#!/usr/bin/env python3
"""Regenerates the tables between the GENERATED 12 markers of DESIGN.md from tools/report.py."""
import os
import re
import subprocess

ROOT = os.path.dirname(os.path.dirname(os.path.abspath(__file__)))
rep = subprocess.run(["python3", os.path.join(ROOT, "tools", "report.py")], stdout=subprocess.PIPE, text=True).stdout
p = os.path.join(ROOT, "DESIGN.md")
s = open(p).read()
s = re.sub(r"<!-- BEGIN GENERATED 12 -->.*<!-- END GENERATED 12 -->", lambda m: "<!-- BEGIN GENERATED 12 -->\n" + rep + "<!-- END GENERATED 12 -->", s, flags=re.S)
open(p, "w").write(s)
print("DESIGN.md section 12 tables regenerated")
