#!/usr/bin/env python3
"""Prints, for every property, the smallest ratio (observed counter / floor) over the shard reports of the
last runs found under target/runs (quick tier) - a guard against floors that sit too close to what a healthy
tree produces (a missed floor is 'inconclusive', exit 2)."""
import glob, json, os, re
ROOT = os.path.dirname(os.path.dirname(os.path.abspath(__file__)))
for d in sorted(glob.glob(os.path.join(ROOT, "target", "runs", "C??-checked-quick-*"))):
    if re.search(r"-[0-9a-f]{10}$", d):
        continue
    reps = [json.load(open(f)) for f in glob.glob(os.path.join(d, "shard-*.report*.json"))]
    if not reps:
        continue
    counters = {}
    for r in reps:
        for k, v in r["counters"].items():
            counters[k] = max(counters.get(k, 0), v) if " max " in k else counters.get(k, 0) + v
    worst = None
    for f in reps[0]["floors"]:
        need = f["quick"]
        have = counters.get(f["counter"], 0)
        ratio = have / need if need else 99
        if worst is None or ratio < worst[0]:
            worst = (ratio, f["counter"], have, need)
    print("%-28s min margin %.1fx  (%s: %d vs floor %d)" % (os.path.basename(d), worst[0], worst[1], worst[2], worst[3]))
