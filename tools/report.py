#!/usr/bin/env python3
"""Prints the markdown tables of DESIGN.md section 12 from selftest/results.json and seeded/*/meta.json."""
import json
import os

ROOT = os.path.dirname(os.path.dirname(os.path.abspath(__file__)))


def main():
    print("### 12.1 Independently seeded breakages (sub-agents that saw only the property text)\n")
    print("| seeded change (directory under `seeded/`) | property | needs, in short | caught by (quick tier unless noted) |")
    print("|---|---|---|---|")
    base = os.path.join(ROOT, "seeded")
    for name in sorted(os.listdir(base)):
        mp = os.path.join(base, name, "meta.json")
        if not os.path.exists(mp):
            continue
        m = json.load(open(mp))
        fired = {}
        silent = set()
        for r in m.get("runs", []):
            for k, v in r["fired"].items():
                fired[k] = v + ("" if r["tier"] == "quick" else " [%s]" % r["tier"])
            silent.update(r["silent"])
        silent -= set(fired)
        caught = ", ".join("%s (%s)" % (k, v) for k, v in sorted(fired.items())) or ("not chased: out of reach of any workload (see `first_run` in meta.json)" if m.get("out_of_reach") else "not chased: judged outside the quantifier (see `first_run` in meta.json)" if m.get("judged_outside_quantifier") else "**missed**")
        if silent:
            caught += "; silent: " + " ".join(sorted(silent))
        print("| `%s` | %s | %s | %s |" % (name, m["property"], m.get("needs", ""), caught))
    print()
    rp = os.path.join(ROOT, "selftest", "results.json")
    if os.path.exists(rp):
        res = json.load(open(rp))
        print("### 12.2 Own mutants (`tools/selftest.py`, all 20 quick checks run against each)\n")
        print("| mutant | repo tests still pass | checks that fired |")
        print("|---|---|---|")
        for k, v in res.items():
            fired = " ".join(x.split("(")[0] for x in v["fired"]) or "**missed**"
            if v["inconclusive"]:
                fired += " (inconclusive: %s)" % " ".join(v["inconclusive"])
            print("| %s | %s | %s |" % (k, "yes" if v["repo_tests_pass"] else "no", fired))


if __name__ == "__main__":
    main()
