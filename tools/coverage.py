#!/usr/bin/env python3
"""Which lines of /repo/rust/core/src do the monitors' workloads actually execute?

Not a registered check: a measuring tool. Builds lsmon with `-Cinstrument-coverage` (nightly, the
checked profile + hooks), runs every property's workload (16 shards, given tier) unsupervised,
merges the raw profiles per property with the toolchain's llvm-profdata and asks llvm-cov for the
line coverage of the repository's sources. Output: coverage/summary.json, coverage/REPORT.md
(per property and overall: lines reached per file; the list of lines no workload reached).

  tools/coverage.py [--tier quick] [--props C01,C02,...] [--seed N]
"""
import json
import os
import re
import shutil
import subprocess
import sys

ROOT = os.path.dirname(os.path.dirname(os.path.abspath(__file__)))
sys.path.insert(0, ROOT)
REPO = "/repo"
TARGET = os.path.join(ROOT, "target")
NCPU = min(16, os.cpu_count() or 1)


def sh(cmd, **kw):
    return subprocess.run(cmd, stdout=subprocess.PIPE, stderr=subprocess.STDOUT, text=True, **kw)


def main():
    args = sys.argv[1:]
    tier, seed, props = "quick", "1", None
    i = 0
    while i < len(args):
        if args[i] == "--tier":
            tier = args[i + 1]
            i += 1
        elif args[i] == "--seed":
            seed = args[i + 1]
            i += 1
        elif args[i] == "--props":
            props = args[i + 1].split(",")
            i += 1
        i += 1
    allprops = sh([os.path.join(ROOT, "check"), "list"]).stdout.split()
    props = props or allprops
    sysroot = sh(["rustc", "+nightly", "--print", "sysroot"]).stdout.strip()
    bindir = os.path.join(sysroot, "lib", "rustlib", "x86_64-unknown-linux-gnu", "bin")
    profdata, cov = os.path.join(bindir, "llvm-profdata"), os.path.join(bindir, "llvm-cov")
    ws = os.path.join(TARGET, "ws", "cov")
    os.makedirs(ws, exist_ok=True)
    subprocess.run(["rsync", "-a", "--delete", "--exclude", "/Cargo.toml", "--exclude", "/Cargo.lock", "--exclude", "/fuzz",
                    os.path.join(ROOT, "harness") + "/", ws + "/"], check=True)
    open(os.path.join(ws, "Cargo.toml"), "w").write(open(os.path.join(ROOT, "harness", "Cargo.toml.in")).read().replace("@REPO@", REPO))
    if not os.path.exists(os.path.join(ws, "Cargo.lock")):
        shutil.copy(os.path.join(REPO, "rust", "core", "Cargo.lock"), os.path.join(ws, "Cargo.lock"))
    env = dict(os.environ)
    tdir = os.path.join(TARGET, "cov")
    env.update({"CARGO_NET_OFFLINE": "true", "CARGO_TARGET_DIR": tdir, "LSMON_REPO": REPO,
                "RUSTFLAGS": "--cfg lucid_suggest_verif -Cinstrument-coverage",
                # build scripts and proc-macros are instrumented too: keep their profiles out of the repository
                "LLVM_PROFILE_FILE": os.path.join(tdir, "build-%p.profraw")})
    p = sh(["cargo", "+nightly", "build", "--offline", "--quiet"], cwd=ws, env=env)
    if p.returncode != 0:
        print(p.stdout[-3000:])
        sys.exit(2)
    binary = os.path.join(tdir, "debug", "lsmon")
    work = os.path.join(TARGET, "cov-run")
    shutil.rmtree(work, ignore_errors=True)
    os.makedirs(work)
    per_prop = {}
    merged_all = []
    for prop in props:
        pdir = os.path.join(work, prop)
        os.makedirs(pdir)
        procs = []
        for s in range(NCPU):
            e = dict(os.environ)
            e["LLVM_PROFILE_FILE"] = os.path.join(pdir, "s%d-%%p.profraw" % s)
            e["RUST_BACKTRACE"] = "0"
            procs.append(subprocess.Popen([binary, "run", "--prop", prop, "--tier", tier, "--seed", seed, "--shard", "%d/%d" % (s, NCPU), "--out", pdir],
                                          env=e, stdout=subprocess.DEVNULL, stderr=subprocess.DEVNULL))
        for pr in procs:
            pr.wait()
        raws = [os.path.join(pdir, f) for f in os.listdir(pdir) if f.endswith(".profraw")]
        out = os.path.join(work, prop + ".profdata")
        r = sh([profdata, "merge", "-sparse", "-o", out] + raws)
        if r.returncode != 0:
            print(prop, "profdata merge failed", r.stdout[-500:])
            continue
        for f in raws:
            os.remove(f)
        merged_all.append(out)
        per_prop[prop] = lines_of(cov, binary, out)
        tot = sum(len(v["covered"]) + len(v["missed"]) for v in per_prop[prop].values())
        hit = sum(len(v["covered"]) for v in per_prop[prop].values())
        print("%s: %d of %d instrumented lines of rust/core/src reached" % (prop, hit, tot), flush=True)
    allprof = os.path.join(work, "all.profdata")
    sh([profdata, "merge", "-sparse", "-o", allprof] + merged_all)
    overall = lines_of(cov, binary, allprof)
    report(per_prop, overall, tier, seed)
    shutil.rmtree(work, ignore_errors=True)


def lines_of(cov, binary, prof):
    """file -> {covered: set(lines), missed: set(lines)} for non-test code of rust/core/src."""
    r = subprocess.run([cov, "export", "--format=lcov", "--instr-profile", prof, binary], stdout=subprocess.PIPE, stderr=subprocess.DEVNULL, text=True)
    out, cur = {}, None
    for line in r.stdout.splitlines():
        if line.startswith("SF:"):
            path = line[3:]
            cur = None
            if path.startswith(REPO + "/rust/core/src/"):
                cur = out.setdefault(path[len(REPO) + 1:], {"covered": set(), "missed": set()})
        elif line.startswith("DA:") and cur is not None:
            ln, cnt = line[3:].split(",")[:2]
            (cur["covered"] if int(cnt) > 0 else cur["missed"]).add(int(ln))
    # a line instrumented in several monomorphisations counts as reached if any copy was
    for v in out.values():
        v["missed"] -= v["covered"]
    return out


def test_lines(path):
    """Line numbers inside `#[cfg(test)] mod tests { ... }` (to the end of file, as in this repository)."""
    try:
        src = open(os.path.join(REPO, path)).read().splitlines()
    except OSError:
        return set()
    for i, l in enumerate(src):
        if l.strip().startswith("#[cfg(test)]"):
            return set(range(i + 1, len(src) + 1))
    return set()


def report(per_prop, overall, tier, seed):
    os.makedirs(os.path.join(ROOT, "coverage"), exist_ok=True)
    summary = {"tier": tier, "seed": seed, "files": {}, "per_property": {}}
    md = ["# Lines of rust/core/src executed by the monitors' workloads (%s tier, seed %s)\n" % (tier, seed),
          "Measured by `tools/coverage.py` (`-Cinstrument-coverage`, llvm-cov line records; test modules excluded).",
          "\"Not reached\" lines are listed with their text: they are what the workloads, and therefore the monitors, say nothing about.\n",
          "| file | lines reached | not reached |", "|---|---|---|"]
    tot_c = tot_m = 0
    missing = []
    for path in sorted(overall):
        tl = test_lines(path)
        c = sorted(overall[path]["covered"] - tl)
        m = sorted(overall[path]["missed"] - tl)
        if not c and not m:
            continue
        tot_c += len(c)
        tot_m += len(m)
        summary["files"][path] = {"reached": len(c), "not_reached": m}
        md.append("| %s | %d | %d |" % (path, len(c), len(m)))
        if m:
            src = open(os.path.join(REPO, path)).read().splitlines()
            missing.append("\n### %s\n\n```" % path)
            for ln in m:
                missing.append("%4d  %s" % (ln, src[ln - 1] if ln <= len(src) else ""))
            missing.append("```")
    md.append("| **all** | **%d** | **%d** |" % (tot_c, tot_m))
    md.append("\n## Per property (lines of rust/core/src reached by that property's workload alone)\n")
    md.append("| property | lines reached | of instrumented |")
    md.append("|---|---|---|")
    for prop in sorted(per_prop):
        c = m = 0
        for path, v in per_prop[prop].items():
            tl = test_lines(path)
            c += len(v["covered"] - tl)
            m += len(v["missed"] - tl)
        summary["per_property"][prop] = {"reached": c, "instrumented": c + m}
        md.append("| %s | %d | %d |" % (prop, c, c + m))
    md.append("\n## Lines no workload reached\n")
    md += missing
    open(os.path.join(ROOT, "coverage", "REPORT.md"), "w").write("\n".join(md) + "\n")
    json.dump(summary, open(os.path.join(ROOT, "coverage", "summary.json"), "w"), indent=1)
    print("overall: %d lines reached, %d not reached -> coverage/REPORT.md" % (tot_c, tot_m))


if __name__ == "__main__":
    main()
