#!/usr/bin/env python3
"""Writes /verif/MANIFEST.json from the table below (kept in one place so that the manifest is
always schema-valid and in step with ./check)."""
import json
import os
import subprocess

ROOT = os.path.dirname(os.path.dirname(os.path.abspath(__file__)))

TECH = {
    "C01": "runtime monitoring: hostile call histories in a checked (overflow/debug-assert/ub_checks) build with panic/abort/hang supervision, differential trace against the shipping-style build; thorough adds AddressSanitizer, valgrind memcheck and coverage-guided fuzzing of the same case runner",
    "C02": "runtime monitoring: structural invariant monitor over every returned hit (independent accent composer, sentinel-marker substitution), plus the real WASM bridge compiled natively; also in stores of languages drawn at random through the public Lang API (the table, read as the property reads it, is the model)",
    "C03": "runtime monitoring: metamorphic monitor (record must be among the hits) over systematically derived prefix queries, incl. the whole e-commerce corpus as one store, stores of languages drawn at random, and sessions with pauses of about 2^16 searches",
    "C04": "runtime monitoring: metamorphic monitor over every single edit (4 kinds x every position) of every qualifying title word; also in stores of languages drawn at random and after pauses of about 2^16 searches",
    "C05": "runtime monitoring: reference-model monitor (gram sets recomputed from the public tokeniser) + span-length bound + exact-prefix highlight model",
    "C06": "runtime monitoring: differential monitor (full store vs one-record stores vs unlimited store) on fresh stores",
    "C07": "runtime monitoring: metamorphic monitor (pairwise two-record stores, permuted insertion orders)",
    "C08": "runtime monitoring: metamorphic ranking monitor on generated two-record stores with adversarial ratings",
    "C09": "runtime monitoring: structural invariant monitor (markup parser aligned with the public tokenisation)",
    "C10": "runtime monitoring: history monitor against a sequential model (freshly built store), exhaustive short histories + random long ones; thorough adds Miri",
    "C11": "runtime monitoring: metamorphic monitor (re-cased / decomposed / accent-folded / separator-prefixed query variants; decomposed stored titles), also for languages defined per case through the public Lang API",
    "C12": "runtime monitoring: reference-model monitor for the empty-query ranking incl. tie rules, before and after further adds",
    "C13": "runtime monitoring: metamorphic monitor (whole title, two words in either order - as normalised and as they stand in the title); also in stores of languages drawn at random",
    "C14": "runtime monitoring: metamorphic monitor (every split point, every single-separator join); also in stores of languages drawn at random",
    "C15": "runtime monitoring: structural invariant monitor over tokeniser output, exhaustive short strings over an adversarial alphabet + random hostile strings + every Unicode scalar value; also for languages drawn at random through the public Lang API (composed input from the table read as the property reads it)",
    "C16": "runtime monitoring: reference-model monitor (Levenshtein / unrestricted DL bounds, fresh-instance and prefix-cell comparison) through a guarded re-export, exhaustive short words + random long ones in alternating order, on shared and per-case instances; thorough adds Miri",
    "C17": "runtime monitoring: reference-model monitor (set-based Jaccard) through a guarded re-export, exhaustive short sequences + random long ones in alternating order; thorough adds Miri",
    "C18": "runtime monitoring: reference-model monitor of TrigramIndex::prepare (shared-gram counts recomputed from the public tokeniser)",
    "C19": "sanitizers: hook assertions at every unchecked access (row/column individually), std ub_checks in a checked optimised build; thorough adds AddressSanitizer, valgrind memcheck, Miri and coverage-guided fuzzing",
    "C20": "runtime monitoring: history monitor of the registry API against independent per-id model stores; thorough adds the native bridge and Miri",
}

LEVEL_TEXT = (
    "Held on the executions observed: the real library code is run on generated, derived and hostile workloads and an "
    "independent oracle judges every observation; the evidence file lists how many oracle evaluations and distinct "
    "non-trivial cases this run saw and which situations (counters) were actually reached. A run that reaches too few "
    "of them is reported as inconclusive, not as held. This is the right level for a universally quantified behavioural "
    "property of a deterministic single-threaded library under the runtime-monitoring family: no proof, wide and "
    "targeted sampling."
)

NOTE = (
    "Trusted: the harness oracles (harness/src/oracle.rs, frozen specification tables of DESIGN.md Appendix A), rustc/cargo, "
    "and - where the property text itself refers to it - the public tokeniser's output. Says nothing about inputs the "
    "generators never produce."
)

SECTION = {p: "DESIGN.md section 7, %s" % p for p in TECH}


def implemented():
    out = subprocess.run([os.path.join(ROOT, "check"), "list"], stdout=subprocess.PIPE, text=True).stdout.split()
    return out


def main():
    impl = implemented()
    checks = []
    for p in sorted(TECH):
        if p not in impl:
            continue
        checks.append({
            "property_id": p,
            "quick_cmd": "./check %s --tier quick" % p,
            "thorough_cmd": "./check %s --tier thorough" % p,
            "evidence_file": "/verif/evidence/%s.json" % p,
            "replay_cmd_template": "./check replay {path}",
            "engine": "lsmon",
            "level_claimed": {"category": "exploration", "text": LEVEL_TEXT, "design_ref": SECTION[p]},
            "level_note": NOTE,
            "technique": TECH[p],
        })
    na = [{"property_id": p, "reason": "monitor not yet implemented in this revision of /verif (planned, see DESIGN.md section 7)"}
          for p in sorted(TECH) if p not in impl]
    hooks_commits = subprocess.run(["git", "-C", "/repo", "log", "--format=%H %s"], stdout=subprocess.PIPE, text=True).stdout.splitlines()
    src = [l.split()[0] for l in hooks_commits if " verif hook:" in l]
    manifest = {
        "version": 1,
        "setup_cmd": "./check setup",
        "hooks": {
            "guard": "--cfg lucid_suggest_verif",
            "enable": "RUSTFLAGS=\"--cfg lucid_suggest_verif\" (set by ./check when it builds the harness against /repo/rust/core)",
            "baseline_off_cmd": "cd /repo/rust/core && cargo test --workspace --no-fail-fast --offline",
            "source_commits": src,
            "add_only": True,
        },
        "engines": [{
            "name": "lsmon",
            "path": "/verif/harness",
            "serves_properties": [c["property_id"] for c in checks],
            "kind_free_text": "Rust monitor harness linked against /repo/rust/core (rebuilt from the working tree on every check), sharded and supervised by the python driver ./check; build configurations: checked (debug assertions + overflow checks + hooks), ship (repo release profile, no hooks), asan, vg (memcheck), miri, fuzz",
        }],
        "checks": checks,
        "notes": "Every check exits 0 (held), 1 (VIOLATION line + replay file) or 2 (INCONCLUSIVE: build failure, coverage floor missed, tool failure). Known findings: /verif/known_findings.txt.",
        "not_applicable": na,
    }
    json.dump(manifest, open(os.path.join(ROOT, "MANIFEST.json"), "w"), indent=1)
    print("MANIFEST.json: %d checks, %d not claimed" % (len(checks), len(na)))


if __name__ == "__main__":
    main()
