#!/usr/bin/env python3
"""Mutation self-test of the monitors (not a registered check).

Each mutant is a small textual change applied to a scratch copy of /repo/rust (outside /repo and
/verif, removed afterwards). The selected checks are run against the copy through VERIF_REPO with
evidence/replays redirected, and the table "mutant -> checks that fired" is written to
selftest/results.json. A mutant that no check catches is listed as MISSED.

  tools/selftest.py [--only name-substring] [--props C03,C04|all] [--tier quick] [--jobs 1]
"""
import json
import os
import shutil
import subprocess
import sys
import time

ROOT = os.path.dirname(os.path.dirname(os.path.abspath(__file__)))
ALL = ["C%02d" % i for i in range(1, 21)]

# (name, file under rust/, old, new, props expected to fire (informational))
MUTANTS = [
    ("trigram-iterator-skips-1-letter-gram", "core/src/utils/trigrams.rs", "Self { word, size: 1 }", "Self { word, size: 2 }", "C03 C05 C18"),
    ("length-threshold-0.2", "core/src/matching/word.rs", "LENGTH_THRESHOLD:  f64 = 0.26", "LENGTH_THRESHOLD:  f64 = 0.2", "C14"),
    ("damlev-threshold-0.19", "core/src/matching/word.rs", "DAMLEV_THRESHOLD:  f64 = 0.21", "DAMLEV_THRESHOLD:  f64 = 0.19", "C04"),
    ("prefix-pair-abs-gt-2", "core/src/matching/word.rs", ".abs() > 1 { continue; }", ".abs() > 2 { continue; }", "C05"),
    ("best-pair-tie-strict", "core/src/matching/word.rs", ".filter(|pair| pair.0.typos <= dist)", ".filter(|pair| pair.0.typos < dist)", "C05 C08"),
    ("limitsort-final-sort-skipped", "core/src/utils/limitsort.rs", "            sort(buffer);\n            buffer.truncate(limit);\n            buffer.reverse();", "            if buffer.len() > limit { sort(buffer); }\n            buffer.truncate(limit);\n            buffer.reverse();", "C06 C07 C08 C12"),
    ("rating-before-offset", "core/src/search/score.rs", "    Offset  = 5,\n    Rating  = 6,", "    Offset  = 6,\n    Rating  = 5,", "C08"),
    ("highlight-end-plus-1", "core/src/search/highlight.rs", "let match_end   = word.slice.0 + rmatch.subslice.1;", "let match_end   = (word.slice.0 + rmatch.subslice.1 + 1).min(word.slice.1);", "C05 C09"),
    ("query-not-lowercased", "core/src/tokenization/mod.rs", "        .strip(&[CharClass::NotAlphaNum], lang)\n        .lower()\n        .set_pos(lang)\n        .set_char_classes(lang)\n        .set_stem(lang)\n}\n\n\npub fn tokenize_record", "        .strip(&[CharClass::NotAlphaNum], lang)\n        .set_pos(lang)\n        .set_char_classes(lang)\n        .set_stem(lang)\n}\n\n\npub fn tokenize_record", "C11 C15 C13"),
    ("candidate-cap-2x", "core/src/store/trigram_index.rs", "limit_sort_unstable(size * 10,", "limit_sort_unstable(size * 2,", "C18 C06"),
    ("german-table-loses-o-umlaut", "core/src/lang/lang_german.rs", "    (\"ö\", \"o\"),\n", "", "C11"),
    ("joined-split-wrong-offset", "core/src/matching/word_match.rs", "subslice: (0, self.subslice.1 - (w2.slice.0 - w1.slice.0)),", "subslice: (0, self.subslice.1 - (w2.slice.0 - w1.slice.1)),", "C01 C09"),
    ("function-words-counted", "core/src/search/score.rs", "    hit.rmatches.iter()\n        .filter(|m| !m.func)\n        .count() as isize", "    hit.rmatches.iter()\n        .count() as isize", "C08"),
    ("matrix-sized-from-one-word", "core/src/matching/damlev/matrix.rs", "let size = max!(coefs1.len() + 2, coefs2.len() + 2);", "let size = coefs1.len() + 2;", "C19 C01 C16"),
    ("jaccard-union-one-branch", "core/src/matching/jaccard/mod.rs", "    union += set2.len() - i2;\n", "", "C17"),
    ("empty-query-tie-reversed", "core/src/search/mod.rs", ".then_with(|| r1.title.chars.cmp(&r2.title.chars))", ".then_with(|| r2.title.chars.cmp(&r1.title.chars))", "C12"),
    ("run-search-keeps-old-buffer", "core/src/lib.rs", "        buffer.clear();\n        for result in store.search", "        for result in store.search", "C20"),
    ("inner-query-words-unfinished", "core/src/tokenization/word_split.rs", "fin:    word.fin || *char_offset + len < word.len(),", "fin:    word.fin,", "C15 C13 C14"),
    ("nul-padding-kept", "core/src/search/highlight.rs", "    highlighted.retain(|ch| ch != '\\0');\n", "", "C02 C05 C09"),
    ("cache-not-invalidated-by-add", "core/src/store/store.rs", "        *next_ix += 1;\n        self.top_ixs.replace(None);", "        *next_ix += 1;", "C10 C12"),
    ("jaccard-threshold-0.5", "core/src/matching/word.rs", "JACCARD_THRESHOLD: f64 = 0.51", "JACCARD_THRESHOLD: f64 = 0.5", "C03 C04"),
    ("typo-penalty-floor", "core/src/search/score.rs", "m.match_len() as isize - 2 * (m.typos.ceil() as isize)", "m.match_len() as isize - 2 * (m.typos.floor() as isize)", "C08"),
    ("gap-score-sign-flipped", "core/src/search/score.rs", "        if prev.offset + 1 < next.offset { count += next.offset - prev.offset - 1; }\n    }\n    -(count as isize)", "        if prev.offset + 1 < next.offset { count += next.offset - prev.offset - 1; }\n    }\n    count as isize", "C08"),
    ("matrix-growth-off-by-one", "core/src/matching/damlev/matrix.rs", "if size > self.size {", "if size > self.size + 1 {", "C19"),
    ("revert-fix-score-underflow", "core/src/search/score.rs", "        .map(|m| m.match_len() as isize - 2 * (m.typos.ceil() as isize))\n        .sum::<isize>()", "        .map(|m| m.match_len() - 2 * (m.typos.ceil() as usize))\n        .sum::<usize>() as isize", "C01"),
    ("revert-fix-clear", "core/src/store/store.rs", "        self.index.replace(TrigramIndex::new());\n        self.top_ixs.replace(None);\n", "", "C10"),
    ("revert-fix-cache-limit", "core/src/search/mod.rs", "            if ixs.len() == self.limit.min(self.records.len()) {\n                return ixs.clone();\n            }", "            return ixs.clone();", "C10"),
    ("limitsort-truncate-before-sort", "core/src/utils/limitsort.rs", "                if buffer.len() >= limit * 2 {\n                    sort(buffer);\n                    buffer.truncate(limit);", "                if buffer.len() >= limit * 2 {\n                    buffer.truncate(limit);\n                    sort(buffer);", "C06 C12"),
    ("compare-hits-ignores-late-components", "core/src/search/sort.rs", "        .zip(hit2.scores.iter())\n", "        .zip(hit2.scores.iter())\n        .take(6)\n", "C07 C08 C06"),
    ("strip-keeps-emptied-words", "core/src/tokenization/text.rs", "        self.words.retain(|w| w.len() > 0);\n", "", "C15 C01"),
    ("damlev-last-row-map-not-cleared", "core/src/matching/damlev/mod.rs", "        last_i1.clear();\n", "", "C16"),
    ("matrix-not-reinitialised-on-growth", "core/src/matching/damlev/matrix.rs", "            #[cfg(lucid_suggest_verif)] crate::verif::matrix_growth();\n            self.init();", "            #[cfg(lucid_suggest_verif)] crate::verif::matrix_growth();", "C16"),
    ("jaccard-second-set-not-deduped", "core/src/matching/jaccard/mod.rs", "        set2.dedup();\n", "", "C17"),
    ("index-grams-not-deduped", "core/src/store/trigram_index.rs", "        grams.dedup();\n", "", "C18"),
    ("destroy-keeps-result-buffer", "core/src/lib.rs", "        buffers.remove(&id);\n", "", "C20"),
    ("set-limit-clamps-zero", "core/src/lib.rs", "        store.limit = limit;\n", "        store.limit = limit.max(1);\n", "C20"),
    ("lower-ascii-only", "core/src/tokenization/text.rs", "                *ch = ch.to_lowercase().next().unwrap_or(*ch);\n            }\n        }\n        self\n    }\n}\n\n\nimpl<W, T, C> fmt::Debug", "                *ch = ch.to_ascii_lowercase();\n            }\n        }\n        self\n    }\n}\n\n\nimpl<W, T, C> fmt::Debug", "C11 C15"),
    ("highlight-slices-normalised-chars", "core/src/search/highlight.rs", "        title: Text { words, source, .. },", "        title: Text { words, chars: source, .. },", "C02"),
    ("top-list-by-ascending-rating", "core/src/search/mod.rs", "                    r2.rating\n                        .cmp(&r1.rating)", "                    r1.rating\n                        .cmp(&r2.rating)", "C12 C06"),
    ("french-compose-loses-E-acute", "core/src/lang/lang_french.rs", "    (\"E\u0301\", \"\u00c9\"),\n", "", "C11 C02 C15"),
    ("bridge-newline-framing", "wasm/src/lib.rs", "            concat.push('\\0');", "            concat.push('\\n');", "C02 C20"),
    ("normalize-window-1", "core/src/lang/normalize.rs", "const NORM_MAX_PATTERN_LEN: usize = 2;", "const NORM_MAX_PATTERN_LEN: usize = 1;", "C02 C11 C15"),
    ("jaccard-merge-cursor-le", "core/src/matching/jaccard/mod.rs", "while i1 < set1.len() && i2 < set2.len() {", "while i1 <= set1.len() && i2 < set2.len() {", "C19 C17"),
    ("index-counts-sized-len-minus-1", "core/src/store/trigram_index.rs", "counts.resize(self.len, 0);", "counts.resize(self.len.saturating_sub(1), 0);", "C19 C18"),
    ("word-match-reads-wrong-cell", "core/src/matching/word.rs", "let dist = dists.get(qslice + 1, rslice + 1);", "let dist = dists.get(qslice + 1, rslice + 2);", "C04 C05 C03"),
    ("hit-matches-drops-short-partial-rule-inverted", "core/src/search/filter.rs", "if !rmatch.fin && first_half { return false; }", "if rmatch.fin && first_half { return false; }", "C13 C06"),
    ("reduce-shrinking-entry", "core/src/lang/lang_german.rs", "    (\"ß\", \"ss\"),", "    (\"ß\", \"\"),", "C01 C15"),
    ("store-add-skips-cache-and-uses-wrong-ix", "core/src/store/store.rs", "        record.ix = *next_ix;", "        record.ix = if *next_ix > 40 { *next_ix - 1 } else { *next_ix };", "C06 C18 C03"),
    ("portuguese-a-tilde-folds-to-o", "core/src/lang/lang_portuguese.rs", "    (\"ã\", \"a\"),", "    (\"ã\", \"o\"),", "C11"),
    ("query-last-word-finished", "core/src/tokenization/mod.rs", "        .fin(false)\n", "", "C03 C15"),
]


def sh(cmd, **kw):
    return subprocess.run(cmd, shell=isinstance(cmd, str), stdout=subprocess.PIPE, stderr=subprocess.STDOUT, text=True, **kw)


def main():
    only = None
    props = None
    tier = "quick"
    args = sys.argv[1:]
    i = 0
    while i < len(args):
        if args[i] == "--only":
            only = args[i + 1]
            i += 1
        elif args[i] == "--props":
            props = ALL if args[i + 1] == "all" else args[i + 1].split(",")
            i += 1
        elif args[i] == "--tier":
            tier = args[i + 1]
            i += 1
        i += 1
    outdir = os.path.join(ROOT, "selftest")
    os.makedirs(outdir, exist_ok=True)
    respath = os.path.join(outdir, "results.json")
    results = json.load(open(respath)) if os.path.exists(respath) else {}
    for name, rel, old, new, expect in MUTANTS:
        if only and only not in name:
            continue
        scratch = "/tmp/lsmut-%d-%s" % (os.getpid(), name[:20])
        shutil.rmtree(scratch, ignore_errors=True)
        os.makedirs(scratch)
        sh("rsync -a --exclude target /repo/rust %s/" % scratch)
        shutil.copytree("/repo/datasets", scratch + "/datasets")
        path = os.path.join(scratch, "rust", rel)
        text = open(path).read()
        if text.count(old) != 1:
            print("MUTANT %s: pattern found %d times - skipped" % (name, text.count(old)))
            shutil.rmtree(scratch, ignore_errors=True)
            continue
        open(path, "w").write(text.replace(old, new))
        env = dict(os.environ)
        env["VERIF_REPO"] = scratch
        env["VERIF_EVIDENCE_DIR"] = os.path.join(scratch, "evidence")
        env["VERIF_REPLAY_DIR"] = os.path.join(scratch, "replays")
        # does it still compile and pass the repo's tests?
        t = sh("cd %s/rust/core && cargo test --offline --no-fail-fast 2>&1 | grep -E 'test result|error(\\[|:)' | head -5" % scratch, env=env)
        tests_ok = "207 passed; 3 failed" in t.stdout and "12 passed; 0 failed" in t.stdout
        fired, incon = [], []
        t0 = time.time()
        for p in (props or ALL):
            r = sh([os.path.join(ROOT, "check"), p, "--tier", tier], env=env, cwd=ROOT)
            if r.returncode == 1:
                clause = ""
                try:
                    rep = json.load(open(os.path.join(scratch, "replays", "%s-1-0.json" % p)))
                    clause = rep["signature"]
                except Exception:
                    pass
                fired.append("%s(%s)" % (p, clause))
            elif r.returncode != 0:
                incon.append(p)
        results[name] = {"repo_tests_pass": tests_ok, "fired": fired, "inconclusive": incon, "expected": expect, "tier": tier,
                         "wall_s": round(time.time() - t0, 1)}
        print("MUTANT %-45s tests_pass=%s fired=%s inconclusive=%s%s" % (name, tests_ok, " ".join(fired) or "-", " ".join(incon) or "-",
                                                                         "" if fired else "   <-- MISSED"), flush=True)
        json.dump(results, open(respath, "w"), indent=1)
        shutil.rmtree(scratch, ignore_errors=True)
        for d in os.listdir(os.path.join(ROOT, "target")):
            if d.endswith(__import__("hashlib").sha1(scratch.encode()).hexdigest()[:10]):
                shutil.rmtree(os.path.join(ROOT, "target", d), ignore_errors=True)
        for sub in ("ws", "runs"):
            base = os.path.join(ROOT, "target", sub)
            if os.path.isdir(base):
                for d in os.listdir(base):
                    if d.endswith(__import__("hashlib").sha1(scratch.encode()).hexdigest()[:10]):
                        shutil.rmtree(os.path.join(base, d), ignore_errors=True)


if __name__ == "__main__":
    main()
