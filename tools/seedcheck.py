#!/usr/bin/env python3
"""Validate a seeded breakage and run the checks against it (not a registered check).

  tools/seedcheck.py <name> <dir with patch.diff, seed_demo.rs, notes.md> <property> [--props C01,C02|all] [--tier quick]
  tools/seedcheck.py --rerun <name> [--props ...] [--tier ...]      # re-run checks for /verif/seeded/<name>

Steps (all in a scratch worktree of /repo under /tmp, removed afterwards):
  1. demo passes on the unchanged tree; 2. patch applies; 3. repo tests unchanged (207/3 + 12);
  4. demo fails with the patch; 5. the selected checks are run with VERIF_REPO=<scratch>.
Results go to /verif/seeded/<name>/meta.json.
"""
import json
import os
import shutil
import subprocess
import sys
import time

ROOT = os.path.dirname(os.path.dirname(os.path.abspath(__file__)))
ALL = ["C%02d" % i for i in range(1, 21)]


def sh(cmd, **kw):
    return subprocess.run(cmd, shell=True, stdout=subprocess.PIPE, stderr=subprocess.STDOUT, text=True, **kw)


def cargo_test(wt, extra="", hooks=False):
    flags = 'RUSTFLAGS="--cfg lucid_suggest_verif" CARGO_TARGET_DIR=%s/rust/core/target-hooks ' % wt if hooks else ""
    r = sh("cd %s/rust/core && %scargo test --offline --no-fail-fast %s 2>&1 | grep -E '^test result|^error|panicked|unsafe precondition|SIGABRT|signal' " % (wt, flags, extra))
    return r.stdout


def main():
    args = sys.argv[1:]
    props, tier, rerun = None, "quick", False
    pos = []
    i = 0
    while i < len(args):
        if args[i] == "--props":
            props = ALL if args[i + 1] == "all" else args[i + 1].split(",")
            i += 1
        elif args[i] == "--tier":
            tier = args[i + 1]
            i += 1
        elif args[i] == "--rerun":
            rerun = True
        else:
            pos.append(args[i])
        i += 1
    name = pos[0]
    dest = os.path.join(ROOT, "seeded", name)
    if rerun:
        src = dest
        meta = json.load(open(os.path.join(dest, "meta.json")))
        prop = meta["property"]
    else:
        src, prop = pos[1], pos[2]
        meta = {"property": prop}
    os.makedirs(dest, exist_ok=True)
    if not rerun:
        for f in ("patch.diff", "seed_demo.rs", "notes.md"):
            shutil.copy(os.path.join(src, f), os.path.join(dest, f))
    wt = "/tmp/seedval-%s-%d" % (name, os.getpid())
    sh("git -C /repo worktree remove --force %s" % wt)
    r = sh("git -C /repo worktree add --detach %s HEAD" % wt)
    assert os.path.isdir(wt), r.stdout
    try:
        shutil.copy(os.path.join(dest, "seed_demo.rs"), os.path.join(wt, "rust/core/tests/seed_demo.rs"))
        hooks = "lucid_suggest_verif" in open(os.path.join(dest, "seed_demo.rs")).read() or "lucid_suggest_verif" in open(os.path.join(dest, "notes.md")).read()
        before = cargo_test(wt, "--test seed_demo", hooks)
        demo_passes_before = "test result: ok" in before
        ap = sh("git -C %s apply %s" % (wt, os.path.join(dest, "patch.diff")))
        applies = ap.returncode == 0
        after_all = cargo_test(wt)
        tests_same = "207 passed; 3 failed" in after_all and "12 passed; 0 failed" in after_all
        after_demo = cargo_test(wt, "--test seed_demo", hooks)
        demo_fails_after = "FAILED" in after_demo or "test result: ok" not in after_demo
        os.remove(os.path.join(wt, "rust/core/tests/seed_demo.rs"))
        sh("cd %s && git clean -fdq -e rust/core/target" % wt)
        meta.update({"patch_applies": applies, "repo_tests_unchanged": tests_same, "demo_passes_without_patch": demo_passes_before,
                     "demo_fails_with_patch": demo_fails_after, "valid": applies and tests_same and demo_passes_before and demo_fails_after})
        print("seed %s: applies=%s tests_unchanged=%s demo_before_ok=%s demo_after_fails=%s" % (name, applies, tests_same, demo_passes_before, demo_fails_after))
        env = dict(os.environ)
        env["VERIF_REPO"] = wt
        env["VERIF_EVIDENCE_DIR"] = os.path.join(wt, "verif-evidence")
        env["VERIF_REPLAY_DIR"] = os.path.join(wt, "verif-replays")
        fired, quiet, incon = {}, [], []
        run = meta.get("runs", [])
        for p in (props or [prop]):
            t0 = time.time()
            r = subprocess.run([os.path.join(ROOT, "check"), p, "--tier", tier], env=env, cwd=ROOT, stdout=subprocess.PIPE, stderr=subprocess.STDOUT, text=True)
            if r.returncode == 1:
                clause = ""
                try:
                    rep = json.load(open(os.path.join(wt, "verif-replays", "%s-1-0.json" % p)))
                    clause = rep["signature"]
                    shutil.copy(os.path.join(wt, "verif-replays", "%s-1-0.json" % p), os.path.join(dest, "witness-%s.json" % p))
                except Exception:
                    pass
                fired[p] = clause
            elif r.returncode == 0:
                quiet.append(p)
            else:
                incon.append(p)
            print("  %s -> exit %d (%.1fs) %s" % (p, r.returncode, time.time() - t0, fired.get(p, "")), flush=True)
        run.append({"tier": tier, "verif_commit": sh("git -C %s rev-parse --short HEAD" % ROOT).stdout.strip(), "fired": fired, "silent": quiet, "inconclusive": incon,
                    "command": "VERIF_REPO=<scratch worktree with patch.diff applied> ./check <ID> --tier %s" % tier})
        meta["runs"] = run
        meta["caught_by"] = sorted(set(k for r_ in run for k in r_["fired"]))
        json.dump(meta, open(os.path.join(dest, "meta.json"), "w"), indent=1, ensure_ascii=False)
    finally:
        sh("git -C /repo worktree remove --force %s" % wt)
        shutil.rmtree(wt, ignore_errors=True)
        h = __import__("hashlib").sha1(wt.encode()).hexdigest()[:10]
        for base in (os.path.join(ROOT, "target"), os.path.join(ROOT, "target", "ws"), os.path.join(ROOT, "target", "runs")):
            if os.path.isdir(base):
                for d in os.listdir(base):
                    if d.endswith(h):
                        shutil.rmtree(os.path.join(base, d), ignore_errors=True)


if __name__ == "__main__":
    main()
